"""C03 - thermal expansion conserves mass and scales dimensions for all materials/shapes.

Oracle (harness side): ``f(T) = (100 + dLL(T)) / (100 + dLL(Tinput))`` where ``dLL`` is read from
``linearExpansionPercent`` of a *second* material instance (configured like the one under test) and nothing
else of armi's expansion machinery is used.  Every expected dimension, area and density ratio is derived from
the as-input (cold) numbers of the case and ``f``.
"""
import hashlib
import math
import os
import sys

from hypothesis import strategies as st

from vp.runner import Out, Part

PROPERTY = "C03"
LEVEL = "exploration"
ASSUMPTIONS = [
    "the material's own linearExpansionPercent(T) is trusted as the definition of dLL(T) (its physical accuracy "
    "is not judged); the harness evaluates it on a separate material instance configured with the same modifications",
    "temperatures stay inside the validity window the material declares in propertyValidTemperature for the "
    "expansion property ('linear expansion percent', else 'linear expansion', else 'thermal expansion'; K converted "
    "to C, 1e-6 K inside the bounds); materials that declare none (Graphite, NaCl, UZr) and fluids/Custom use "
    "20..600 C, labelled 'range:none-stated'",
    "comparisons between the harness formula and armi use rel 1e-10 (products of up to 8 expansion steps are "
    "re-associated); read-backs of a value just written and Tc= previews use rel 1e-12; 'dimension kept' for "
    "fluids/Custom and non-expanding dimensions (mult, nHoles) is exact",
    "the shape x material domain is pinned in this module (12 two-dimensional shapes; 24 expanding solids, 15 "
    "solids whose linearExpansionPercent is identically 0, 12 fluids, Custom); 3-D shapes and DerivedShape are "
    "outside the statement; solids without an expansion model are only checked for the documented refusal",
    "p.pinNDens (float32, pins x nuclides) and p.detailedNDens (float64 vector) are filled with synthetic values the "
    "way a pin-level / high-fidelity depletion step leaves them, each independently present or absent; only their "
    "ratios between states are judged, pinNDens with the float32 tolerance rel 1e-6 (in-place float32 rescaling per step)",
    "derived lengths (getBoundingCircleOuterDiameter, getCircleInnerDiameter, getPerimeter, getPitchData) are expected to be "
    "cold value * f like the dimensions they are built from, with an absolute floor of 1e-12 * largest dimension because some "
    "are differences of nearly equal dimensions; UnshapedComponent's bounding circle documents that it ignores Tc and is not previewed",
    "one composition dict assigned directly to several components' p.numberDensities (the route updateNumberDensities' "
    "docstring names) is an input real callers make; area modifications follow doc/user/inputs.rst ('<name>.add' / '<name>.sub', "
    "referenced component defined first) and are previewed at a temperature inside both materials' windows",
    "temperatures where a material's own linearExpansionPercent is exactly 0.0 (found once per material: reference "
    "temperatures and float-precision roots between sign changes, inside the declared closed window; 13 of the 24 expanding "
    "solids have one) are deliberate Tinput, intermediate and end points of the paths",
    "absolute number densities at construction are not judged (they carry the documented axial factor); only "
    "ratios between states of one component, and equality between a path and a single jump",
    "components with a linked dimension are not expected to conserve their own mass (their area follows the "
    "neighbour); for them only the link, the area-from-current-dimensions and the volume cache are asserted",
    "enumerated grid draws are derived from sha1(seed:shape:material:k); the seed is taken from --seed / VERIF_SEED",
]

REL = 1e-10
TIGHT = 1e-12
F32 = 1e-6  # p.pinNDens is stored as float32 and rescaled in place (armi's own test uses rtol 1e-6)

# ------------------------------------------------------------------------------------------------
# pinned domain

SOLIDS = [
    "B4C", "Be9", "Cu", "Graphite", "HastelloyN", "HT9", "Inconel600", "Inconel625", "Inconel800",
    "InconelX750", "MgO", "MOX", "Sc2O3", "NaCl", "TZM", "ThO2", "ThoriumOxide", "UZr", "Uranium", "UO2",
    "UraniumOxide", "Y2O3", "ZnO", "Zr",
]
NO_MODEL = [
    "Alloy200", "CaH2", "Californium", "Concrete", "Hafnium", "Inconel", "Inconel617", "InconelPE16",
    "Molybdenum", "NZ", "SiC", "Tantalum", "ThU", "Thorium", "UThZr",
]
FLUIDS = [
    "Air", "Cs", "Lead", "LeadBismuth", "Lithium", "Magnesium", "Potassium", "SaturatedSteam",
    "SaturatedWater", "Sodium", "Sulfur", "Void",
]
KEEPERS = FLUIDS + ["Custom"]
KIND = {}
KIND.update({n: "solid" for n in SOLIDS})
KIND.update({n: "nomodel" for n in NO_MODEL})
KIND.update({n: "fluid" for n in FLUIDS})
KIND["Custom"] = "custom"
ABSTRACT = {"Material", "Fluid", "SimpleSolid", "FuelMaterial", "_Mixture", "Water"}

# material modifications the way blueprints pass them to applyInputParams: (keyword, low, high)
MODS = {
    "UZr": [("U235_wt_frac", 0.02, 0.35), ("ZR_wt_frac", 0.03, 0.25)],
    "UO2": [("U235_wt_frac", 0.005, 0.2), ("TD_frac", 0.7, 1.0)],
    "UraniumOxide": [("U235_wt_frac", 0.005, 0.2), ("TD_frac", 0.7, 1.0)],
    "MOX": [("U235_wt_frac", 0.002, 0.05), ("TD_frac", 0.7, 1.0)],
    "Uranium": [("U235_wt_frac", 0.005, 0.2), ("TD_frac", 0.7, 1.0)],
    "B4C": [("B10_wt_frac", 0.1, 0.95), ("TD_frac", 0.5, 1.0)],
    "ThO2": [("TD_frac", 0.7, 1.0)],
    "ThoriumOxide": [("TD_frac", 0.7, 1.0)],
}

# shape -> expanding dimension names (every length of the cross section) with a role used when a hot dimension is
# rewritten ("o" may only grow, "i" may only shrink, "n" either), dimensions that must never change, and
# the number of the generator for the cold values
SHAPES = {
    "Circle": {"expand": [("od", "o"), ("id", "i")], "fixed": ["mult"]},
    "Hexagon": {"expand": [("op", "o"), ("ip", "i")], "fixed": ["mult"]},
    "Rectangle": {"expand": [("lengthOuter", "o"), ("lengthInner", "i"), ("widthOuter", "o"), ("widthInner", "i")],
                  "fixed": ["mult"]},
    "SolidRectangle": {"expand": [("lengthOuter", "n"), ("widthOuter", "n")], "fixed": ["mult"]},
    # a Square stores its two numbers under both the width and the length names
    "Square": {"expand": [("widthOuter", "o"), ("widthInner", "i"), ("lengthOuter", "o"), ("lengthInner", "i")],
               "fixed": ["mult"]},
    "Triangle": {"expand": [("base", "n"), ("height", "n")], "fixed": ["mult"]},
    "HoledHexagon": {"expand": [("op", "o"), ("holeOD", "i")], "fixed": ["mult", "nHoles"]},
    "HexHoledCircle": {"expand": [("od", "o"), ("holeOP", "i")], "fixed": ["mult"]},
    "HoledRectangle": {"expand": [("lengthOuter", "o"), ("widthOuter", "o"), ("holeOD", "i")], "fixed": ["mult"]},
    "HoledSquare": {"expand": [("widthOuter", "o"), ("holeOD", "i")], "fixed": ["mult"]},
    "Helix": {"expand": [("od", "o"), ("id", "i"), ("axialPitch", "n"), ("helixDiameter", "n")], "fixed": ["mult"]},
    "UnshapedComponent": {"expand": [], "fixed": []},
}
SHAPE_NAMES = list(SHAPES)

AIR_SIG = "fluid/air-temperature-change-raises"
EXCLUDE_KNOWN = {AIR_SIG: False}  # repaired in /repo (fix: commit 9e42795); the shape is searched again


# ------------------------------------------------------------------------------------------------
# helpers

def _close(a, b, rel=REL, abs_=0.0):
    a, b = float(a), float(b)
    return abs(a - b) <= rel * max(abs(a), abs(b)) + abs_


def _inner(q):
    """Inner/outer ratio: solid in ~15 % of the draws, otherwise strictly inside the outer dimension."""
    return 0.0 if q < 0.15 else min(q, 0.98)


def _cold_dims(shape, case):
    """As-input dimensions with positive area and inner < outer, by construction."""
    s, q = float(case["scale"]), case["q"]
    mult = case["mult"]
    aspect = 0.1 + 2.0 * q[1]
    hole = 0.02 + 0.9 * q[0]  # hole area / outer area
    if shape == "Circle":
        return {"od": s, "id": s * _inner(q[0]), "mult": mult}
    if shape == "Hexagon":
        return {"op": s, "ip": s * _inner(q[0]), "mult": mult}
    if shape == "Rectangle":
        w = s * aspect
        return {"lengthOuter": s, "lengthInner": s * _inner(q[0]), "widthOuter": w, "widthInner": w * _inner(q[2]),
                "mult": mult}
    if shape == "SolidRectangle":
        return {"lengthOuter": s, "widthOuter": s * aspect, "mult": mult}
    if shape == "Square":
        return {"widthOuter": s, "widthInner": s * _inner(q[0]), "mult": mult}
    if shape == "Triangle":
        return {"base": s, "height": s * aspect, "mult": mult}
    if shape == "HoledHexagon":
        n = case["nHoles"]
        hexa = math.sqrt(3.0) / 2.0 * s * s
        return {"op": s, "holeOD": math.sqrt(hole * hexa * 4.0 / (n * math.pi)), "nHoles": n, "mult": mult}
    if shape == "HexHoledCircle":
        circ = math.pi * s * s / 4.0
        return {"od": s, "holeOP": math.sqrt(hole * circ * 2.0 / math.sqrt(3.0)), "mult": mult}
    if shape == "HoledRectangle":
        w = s * aspect
        return {"lengthOuter": s, "widthOuter": w, "holeOD": math.sqrt(hole * s * w * 4.0 / math.pi), "mult": mult}
    if shape == "HoledSquare":
        return {"widthOuter": s, "holeOD": math.sqrt(hole * s * s * 4.0 / math.pi), "mult": mult}
    if shape == "Helix":
        return {"od": s, "id": s * _inner(q[0]), "helixDiameter": s * (1.0 + 5.0 * q[1]),
                "axialPitch": s * (2.0 + 100.0 * q[2]), "mult": mult}
    if shape == "UnshapedComponent":
        return {"area": s * s}
    raise KeyError(shape)


def _model_cold(shape, kw):
    """Cold value of every name in the shape's expanding list (Square aliases included)."""
    cold = {}
    for d, _role in SHAPES[shape]["expand"]:
        if shape == "Square" and d.startswith("length"):
            cold[d] = kw[d.replace("length", "width")]
        else:
            cold[d] = kw[d]
    return cold


def _make_material(name, mods_u):
    """A material instance configured the way ComponentBlueprint._constructMaterial does it."""
    from armi import materials

    mat = materials.resolveMaterialClassByName(name)()
    if mods_u is None:
        return mat
    if name == "Custom":
        # what CustomIsotopic.apply does for a Custom material with an input density
        mat.massFrac = {"U235": 0.15, "U238": 0.65, "ZR": 0.2}
        mat.customDensity = 4.0 + 12.0 * mods_u[0]
    elif name in MODS:
        kw = {"customIsotopics": {}}
        for (key, lo, hi), u in zip(MODS[name], mods_u):
            kw[key] = lo + u * (hi - lo)
        mat.applyInputParams(**kw)
    return mat


_EXP_KEYS = ("linear expansion percent", "linear expansion", "thermal expansion")


def _window(mat, kind):
    """(low C, high C, stated?) of the expansion property."""
    if kind == "solid":
        pv = mat.propertyValidTemperature
        for k in _EXP_KEYS:
            if k in pv:
                (lo, hi), unit = pv[k]
                lo, hi = float(lo), float(hi)
                if unit == "K":
                    lo, hi = lo - 273.15, hi - 273.15
                elif unit != "C":
                    raise AssertionError("unit %r" % (unit,))
                return lo + 1e-6, hi - 1e-6, True
    return 20.0, 600.0, False


_ZEROS = {}


def _zeros(name):
    """Temperatures (C) inside the material's declared (closed) window where its linearExpansionPercent is EXACTLY 0.0:
    reference temperatures of the correlations and float-precision roots between sign changes on a grid.  Once per
    process and material."""
    if name in _ZEROS:
        return _ZEROS[name]
    mat = _make_material(name, None)
    lo, hi, stated = _window(mat, "solid")
    if stated:
        lo, hi = lo - 1e-6, hi + 1e-6  # the declared bounds themselves are valid temperatures
    unit_k, lo_k, hi_k = False, None, None
    for k in _EXP_KEYS:
        if k in mat.propertyValidTemperature:
            (a, b), unit = mat.propertyValidTemperature[k]
            unit_k, lo_k, hi_k = unit == "K", float(a), float(b)
            break

    def inside(t):
        if unit_k:
            return lo_k <= t + 273.15 <= hi_k
        return lo <= t <= hi

    def dll(t):
        return float(mat.linearExpansionPercent(Tc=t))

    cands = [0.0, 20.0, 21.0, 21.1, 21.11, 25.0, 26.85, 24.85, 19.85, 293.15 - 273.15, 298.15 - 273.15, 300.0 - 273.15,
             298.0 - 273.15, 293.0 - 273.15, 273.15 - 273.15, lo, hi]
    ref_k = getattr(mat, "refTempK", None)
    if ref_k is not None:
        cands += [float(ref_k) - 273.15]
    # bisection to adjacent floats between sign changes on a grid
    n = 400
    grid = [lo + (hi - lo) * i / n for i in range(n + 1)]
    vals = [dll(t) if inside(t) else None for t in grid]
    for (ta, va), (tb, vb) in zip(zip(grid, vals), zip(grid[1:], vals[1:])):
        if va is None or vb is None or va == 0.0 or vb == 0.0 or (va > 0) == (vb > 0):
            continue
        a, b = ta, tb
        for _ in range(200):
            m = 0.5 * (a + b)
            if m == a or m == b:
                break
            vm = dll(m)
            if vm == 0.0:
                a = b = m
                break
            if (vm > 0) == (va > 0):
                a = m
            else:
                b = m
        cands += [a, b]
    found = []
    for t in sorted({float(t) for t in cands + grid if inside(t) and dll(t) == 0.0}):
        if not found or t - found[-1] > 1e-6:  # neighbouring floats of one zero count once
            found.append(t)
    _ZEROS[name] = found
    return found


def _temp(lo, hi, u, zeros=()):
    """Fraction of the window -> temperature in C.  Sentinels: -1 = exactly 0.0 C when the window holds it;
    -2, -3, ... = the first, second, ... temperature where the material's dLL is exactly zero (window bottom if none)."""
    if u <= -2:
        return zeros[(int(-u) - 2) % len(zeros)] if zeros else lo
    if u < 0:
        return 0.0 if lo <= 0.0 <= hi else lo
    return lo + float(u) * (hi - lo)


def _weights(names):
    from armi.nucDirectory import nuclideBases

    return {n: float(nuclideBases.byName[n].weight) for n in names}


def _seed():
    argv = sys.argv
    for i, a in enumerate(argv):
        if a == "--seed" and i + 1 < len(argv):
            return argv[i + 1]
        if a.startswith("--seed="):
            return a.split("=", 1)[1]
    return os.environ.get("VERIF_SEED", "1") or "1"


def _u(*key):
    """Deterministic fraction in [0, 1) from a key."""
    h = hashlib.sha1(":".join(str(k) for k in key).encode()).hexdigest()
    return int(h[:13], 16) / float(16 ** 13)


def _exclude_known(case):
    """Generator-side: take the shape that triggers a reported defect out of a drawn case (and say so)."""
    if EXCLUDE_KNOWN.get(AIR_SIG) and case["material"] == "Air" and any(op["op"] == "T" for op in case["path"]):
        case = dict(case)
        case["path"] = [op for op in case["path"] if op["op"] != "T"]
        case["excluded"] = AIR_SIG
    return case


def _extra_arrays(extra, nd):
    """Pin-wise / high-fidelity density arrays the way a depletion step leaves them on a component:
    pinNDens float32 (pins x nuclides of the component), detailedNDens float64 vector; some entries exactly 0."""
    import numpy as np

    pin = det = None
    if not extra:
        return pin, det
    key = ("extra", extra["u"])
    if extra.get("pin"):
        nucs = sorted(nd) or ["X"]
        pin = np.array([[0.0 if _u(*key + ("pz", i, j)) < 0.1 else (nd.get(n, 0.0) or 1e-3) * (0.5 + _u(*key + ("p", i, j)))
                         for j, n in enumerate(nucs)] for i in range(extra["pin"])], dtype=np.float32)
    if extra.get("det"):
        det = np.array([0.0 if _u(*key + ("dz", i)) < 0.15 else 10.0 ** (-12.0 + 11.0 * _u(*key + ("d", i)))
                        for i in range(extra["det"])], dtype=float)
    return pin, det


# what getPitchData() reports (current state), as names of the shape's own dimensions
_PITCH = {
    "Hexagon": ["op"], "HoledHexagon": ["op"], "Rectangle": ["lengthOuter", "widthOuter"],
    "SolidRectangle": ["lengthOuter", "widthOuter"], "HoledRectangle": ["lengthOuter", "widthOuter"],
    "Square": ["widthOuter", "widthOuter"], "HoledSquare": ["widthOuter", "widthOuter"],
}


def _derived_getters(comp, shape, t_in):
    """The lengths a shape derives from its dimensions and reports at a requested state:
    [name, call(Tc=None), honours Tc?, read cold value()].  Shapes that do not implement one raise the documented
    NotImplementedError; UnshapedComponent documents that its bounding circle ignores Tc."""
    res = []
    for gname in ("getBoundingCircleOuterDiameter", "getCircleInnerDiameter"):
        fn = getattr(comp, gname)
        try:
            fn(cold=True)
        except NotImplementedError:
            continue
        res.append([gname, (lambda Tc=None, fn=fn: fn(Tc=Tc)), shape != "UnshapedComponent", (lambda fn=fn: fn(cold=True))])
    if hasattr(comp, "getPerimeter"):
        res.append(["getPerimeter", (lambda Tc=None: comp.getPerimeter(Tc=Tc)), True, (lambda: comp.getPerimeter(Tc=t_in))])
    return res


def _is_air_defect(exc):
    return isinstance(exc, ValueError) and "Cannot produce T in K" in str(exc)


# ------------------------------------------------------------------------------------------------
# one component: construction, temperature path, hot dimension writes

def single_execute(case):
    from armi.materials import custom
    from armi.materials import material as mm
    from armi.reactor import blocks, components

    out = Out()
    shape, name = case["shape"], case["material"]
    spec = SHAPES[shape]
    kind = KIND[name]
    mods = case.get("mods")
    if kind == "nomodel":
        mods = None
    out.label("shape:" + shape, "mat:" + name, "kind:" + kind)
    mat = _make_material(name, mods)
    ref = _make_material(name, mods)
    if mods is not None and (name in MODS or name == "Custom"):
        out.label("material-modifications")
    is_fluid = isinstance(mat, mm.Fluid)
    is_custom = isinstance(mat, custom.Custom)
    if (kind == "fluid") != is_fluid or (kind == "custom") != is_custom:
        raise AssertionError("pinned kind of %s is %s" % (name, kind))

    lo, hi, stated = _window(mat, kind)
    out.label("range:stated" if stated else "range:none-stated")
    zeros = _zeros(name) if kind == "solid" else ()

    def temp(u):
        return _temp(lo, hi, u, zeros)

    ops = list(case["path"])
    if case.get("excluded"):
        out.label("excluded:" + case["excluded"])
    t_in, t0 = temp(case["tin"]), temp(case["t0"])
    if kind == "nomodel":
        t0 = t_in
    expands = kind == "solid"

    if expands:
        def dll(t):
            return float(ref.linearExpansionPercent(Tc=t))
        d_in = dll(t_in)

        def f(t):
            return (100.0 + dll(t)) / (100.0 + d_in)
        visited = [t0] + [temp(op["u"]) for op in ops if op["op"] == "T"]
        if any(t != t_in and dll(t) == d_in for t in visited):
            # getThermalExpansionFactor refuses (RuntimeError, by design) a temperature change without a change of dLL
            out.rejected = True
            out.label("rejected:flat-dLL")
            return out
    else:
        def dll(t):
            return 0.0

        def f(t):
            return 1.0

    kw = _cold_dims(shape, case)
    args = dict(name="comp", material=mat, Tinput=t_in, Thot=t0)
    args.update(kw)
    comp = components.factory(shape.lower(), [], args)
    height = None
    if case.get("parent"):
        height = float(case["height"])
        blk = blocks.HexBlock("blk", height=height)
        blk.add(comp)
        out.label("in-block")

    cold = _model_cold(shape, kw)
    fixed = {d: kw[d] for d in spec["fixed"]}
    names = [d for d, _r in spec["expand"]]
    roles = dict(spec["expand"])
    for d in names:
        out.check(comp.getDimension(d, cold=True) == cold[d], "dims/cold-readback",
                  lambda: "%s %s: cold %s reads %r, input %r" % (shape, name, d, comp.getDimension(d, cold=True), cold[d]))

    if kind == "nomodel":
        return _nomodel(out, comp, case, temp, names, cold, shape, name)

    base = {"area": comp.getArea(cold=True)}
    derived = _derived_getters(comp, shape, t_in)
    dcold = {g[0]: g[3]() for g in derived}

    def dabs():
        # derived lengths may be differences of nearly equal dimensions (helixDiameter - od): absolute floor
        return 1e-12 * max([abs(v) for v in cold.values()] + [abs(v) for v in dcold.values()] + [0.0])
    nd0 = dict(comp.getNumberDensities())
    pin0, det0 = _extra_arrays(case.get("extra"), nd0)
    if pin0 is not None:
        comp.p.pinNDens = pin0.copy()
    if det0 is not None:
        comp.p.detailedNDens = det0.copy()  # the setter keeps the object it is given; armi rescales in place
    out.label("extra:%s%s" % ("pin" if pin0 is not None else "-", "+det" if det0 is not None else ""))
    w = _weights(sorted(nd0))
    out.label("density:zero" if not any(nd0.values()) else "density:positive")

    def lin_mass(area, nd):
        return area * sum(nd[n] * w[n] for n in sorted(nd))

    def observe(t, what):
        ft = f(t)
        for d in names:
            got = comp.getDimension(d)
            if expands:
                out.check(_close(got, cold[d] * ft), "dims/expanding-dimension-not-cold-times-f",
                          lambda: "%s %s %s: %s at %.6f C is %r, cold %r * f %r = %r" % (
                              shape, name, what, d, t, got, cold[d], ft, cold[d] * ft))
            else:
                out.check(got == cold[d], "fluid/dimension-changed",
                          lambda: "%s %s %s: %s at %.6f C is %r, input %r" % (shape, name, what, d, t, got, cold[d]))
        for d, v in fixed.items():
            got = comp.getDimension(d)
            out.check(got == v, "dims/non-expanding-dimension-changed",
                      lambda: "%s %s %s: %s is %r, input %r" % (shape, name, what, d, got, v))
        for gname, call, _tc, _c in derived:
            got = call()
            out.check(_close(got, dcold[gname] * ft, REL if expands else TIGHT, dabs()), "dims/derived-length-not-cold-times-f",
                      lambda: "%s %s %s: %s() at %.6f C is %r, cold %r * f %r = %r" % (
                          shape, name, what, gname, t, got, dcold[gname], ft, dcold[gname] * ft))
        if shape in _PITCH:
            pd = comp.getPitchData()
            pd = list(pd) if isinstance(pd, tuple) else [pd]
            want = [cold[d] * ft for d in _PITCH[shape]]
            out.check(len(pd) == len(want) and all(_close(a, b) for a, b in zip(pd, want)), "dims/derived-length-not-cold-times-f",
                      lambda: "%s %s %s: getPitchData() at %.6f C is %r, cold*f = %r" % (shape, name, what, t, pd, want))
        area = comp.getArea()
        if expands:
            out.check(_close(area, base["area"] * ft * ft), "area/not-cold-area-times-f-squared",
                      lambda: "%s %s %s: area at %.6f C %r, cold %r * f^2 %r = %r" % (
                          shape, name, what, t, area, base["area"], ft * ft, base["area"] * ft * ft))
        else:
            out.check(_close(area, base["area"], 1e-14), "fluid/area-changed",
                      lambda: "%s %s %s: area %r, cold %r" % (shape, name, what, area, base["area"]))
        nd = dict(comp.getNumberDensities())
        st_ = {"T": t, "f": ft, "area": area, "nd": nd,
               "pin": None if comp.p.pinNDens is None else comp.p.pinNDens.astype(float),
               "det": None if comp.p.detailedNDens is None else comp.p.detailedNDens.copy()}
        if height is not None:
            vol = comp.getVolume()
            out.check(_close(vol, area * height, TIGHT), "cache/volume-stale",
                      lambda: "%s %s %s: getVolume %r, area*height %r" % (shape, name, what, vol, area * height))
            st_["mass"] = comp.getMass()
        return st_

    def compare(a, b, what):
        """Densities between two states scale by (f_a/f_b)^2 (solids, Custom); mass per unit height is equal."""
        if kind == "fluid":
            return
        if not out.check(sorted(a["nd"]) == sorted(b["nd"]), "density/nuclide-set-changed", what):
            return
        r = (a["f"] / b["f"]) ** 2
        for n in sorted(a["nd"]):
            if not out.check(_close(b["nd"][n], a["nd"][n] * r), "density/not-scaled-by-inverse-f-squared",
                             lambda: "%s %s %s: %s from %.6f C to %.6f C: %r -> %r, expected factor (f1/f2)^2 = %r, got %r" % (
                                 shape, name, what, n, a["T"], b["T"], a["nd"][n], b["nd"][n], r,
                                 b["nd"][n] / a["nd"][n] if a["nd"][n] else None)):
                break
        arrays(a, b, r, what)

    def arrays(a, b, r, what):
        """p.pinNDens / p.detailedNDens, when present, follow the same factor; absent stays absent, 0 stays 0."""
        for key, tol in (("pin", F32), ("det", REL)):
            x, y = a[key], b[key]
            pname = "pinNDens" if key == "pin" else "detailedNDens"
            if x is None or y is None:
                out.check(x is None and y is None, "density/%s-presence-changed" % pname, "%s %s %s" % (shape, name, what))
                continue
            if not out.check(x.shape == y.shape, "density/%s-shape-changed" % pname, "%s %s %s: %s -> %s" % (shape, name, what, x.shape, y.shape)):
                continue
            want = x * r
            bad = abs(y - want) > tol * abs(want)
            if bad.any():
                idx = tuple(int(i) for i in list(zip(*bad.nonzero()))[0])
                out.fail("density/%s-not-scaled-by-inverse-f-squared" % pname,
                         "%s %s %s: p.%s%s from %.6f C to %.6f C: %r -> %r, expected factor (f1/f2)^2 = %r (numberDensities follow it); "
                         "detailedNDens %s" % (shape, name, what, pname, list(idx), a["T"], b["T"], float(x[idx]), float(y[idx]), r,
                                               "absent" if a["det"] is None else "present"))

    def conserved(s, what):
        if kind == "fluid":
            return
        m = lin_mass(s["area"], s["nd"])
        out.check(_close(m, base["mass"]), "mass/per-unit-height-not-conserved",
                  lambda: "%s %s %s: A*sum(N*A_i) at %.6f C = %r, reference %r (ratio %r)" % (
                      shape, name, what, s["T"], m, base["mass"], m / base["mass"] if base["mass"] else None))
        if "mass" in s and "getMass" in base:
            out.check(_close(s["mass"], base["getMass"]), "mass/getMass-not-conserved",
                      lambda: "%s %s %s: getMass at %.6f C = %r, reference %r" % (shape, name, what, s["T"], s["mass"], base["getMass"]))

    s0 = observe(t0, "after construction")
    base["mass"] = lin_mass(s0["area"], s0["nd"])
    if "mass" in s0:
        base["getMass"] = s0["mass"]
    prev = s0
    t_cur = t0
    n_t = 0
    temps = [t0]
    for k, op in enumerate(ops):
        if op["op"] == "T":
            t_new = temp(op["u"])
            preview = {d: comp.getDimension(d, Tc=t_new) for d in names}
            preview_area = comp.getArea(Tc=t_new)
            preview_der = {g[0]: g[1](t_new) for g in derived if g[2]}
            for gname, got in preview_der.items():
                out.check(_close(got, dcold[gname] * f(t_new), REL if expands else TIGHT, dabs()), "dims/derived-length-at-Tc-not-cold-times-f",
                          lambda: "%s %s: at %.6f C, %s(Tc=%r) = %r, cold %r * f(Tc) = %r" % (
                              shape, name, t_cur, gname, t_new, got, dcold[gname], dcold[gname] * f(t_new)))
            try:
                comp.setTemperature(t_new)
            except ValueError as exc:
                if name == "Air" and _is_air_defect(exc):
                    out.fail(AIR_SIG, "Air component: setTemperature(%r) from %r C raises ValueError(%s): "
                             "Air.pseudoDensity(Tc=...) calls getTk(Tc, Tk) with both arguments set" % (t_new, t_cur, exc))
                    return out
                raise
            n_t += 1
            temps.append(t_new)
            out.check(comp.temperatureInC == t_new, "state/temperature-not-stored", "setTemperature(%r) -> %r" % (t_new, comp.temperatureInC))
            what = "after step %d (setTemperature %.6f -> %.6f C)" % (k, t_cur, t_new)
            s = observe(t_new, what)
            for d in names:
                out.check(_close(preview[d], comp.getDimension(d), TIGHT), "dims/preview-at-Tc-differs-from-state-at-Tc",
                          lambda: "%s %s: getDimension(%s, Tc=%r) gave %r before, %r after setTemperature" % (
                              shape, name, d, t_new, preview[d], comp.getDimension(d)))
            out.check(_close(preview_area, s["area"], TIGHT), "area/preview-at-Tc-differs-from-state-at-Tc",
                      lambda: "%s %s: getArea(Tc=%r) gave %r before, %r after setTemperature" % (shape, name, t_new, preview_area, s["area"]))
            for gname, call, _tc, _c in derived:
                if gname in preview_der:
                    out.check(_close(preview_der[gname], call(), TIGHT, dabs()), "dims/derived-length-preview-at-Tc-differs-from-state-at-Tc",
                              lambda: "%s %s: %s(Tc=%r) gave %r at %.6f C, %r after setTemperature" % (
                                  shape, name, gname, t_new, preview_der[gname], t_cur, call()))
            compare(prev, s, what)
            compare(s0, s, what + " vs construction")
            conserved(s, what)
            prev, t_cur = s, t_new
        elif op["op"] == "hot":
            if not names:
                out.label("hot-write:skipped")
                continue
            d = names[op["d"] % len(names)]
            cur = comp.getDimension(d)
            if not cur:
                out.label("hot-write:skipped")
                continue
            role = roles[d]
            frac = 0.2 * float(op["u"])
            if role == "i" or (role == "n" and op["d"] % 2):
                v = cur * (1.0 - frac)
            else:
                v = cur * (1.0 + frac)
            before = dict(comp.getNumberDensities())
            comp.setDimension(d, v, cold=False)
            got = comp.getDimension(d)
            out.label("hot-write")
            out.check(_close(got, v, TIGHT), "dims/hot-write-readback",
                      lambda: "%s %s: setDimension(%s, %r, cold=False) at %.6f C reads back %r" % (shape, name, d, v, t_cur, got))
            cold[d] = v / f(t_cur)
            gotc = comp.getDimension(d, cold=True)
            out.check(_close(gotc, cold[d]), "dims/hot-write-cold-value",
                      lambda: "%s %s: after hot write of %s=%r at %.6f C the cold value is %r, expected v/f = %r" % (
                          shape, name, d, v, t_cur, gotc, cold[d]))
            out.check(before == dict(comp.getNumberDensities()), "density/changed-by-setDimension", "%s %s %s" % (shape, name, d))
            out.check((prev["pin"] is None or (comp.p.pinNDens == prev["pin"]).all())
                      and (prev["det"] is None or (comp.p.detailedNDens == prev["det"]).all()),
                      "density/changed-by-setDimension", "%s %s %s: pinNDens/detailedNDens" % (shape, name, d))
            # a dimension write changes the amount of material: new reference for the conservation checks
            base["area"] = comp.getArea(cold=True)
            dcold.update({g[0]: g[3]() for g in derived})
            s = observe(t_cur, "after step %d (hot write of %s)" % (k, d))
            base["mass"] = lin_mass(s["area"], s["nd"])
            if "mass" in s:
                base["getMass"] = s["mass"]
            prev = s
        else:
            raise AssertionError(op)

    # (d) a single jump from the as-built state gives the same end state
    if n_t and kind != "fluid":
        mat2 = _make_material(name, mods)
        args2 = dict(name="comp", material=mat2, Tinput=t_in, Thot=t0)
        args2.update(kw)
        twin = components.factory(shape.lower(), [], args2)
        for d in names:
            if cold[d] != _model_cold(shape, kw)[d]:
                twin.setDimension(d, cold[d])
        if pin0 is not None:
            twin.p.pinNDens = pin0.copy()
        if det0 is not None:
            twin.p.detailedNDens = det0.copy()  # the setter keeps the object it is given; armi rescales in place
        twin.setTemperature(t_cur)
        end = {"T": t_cur, "pin": None if twin.p.pinNDens is None else twin.p.pinNDens.astype(float), "det": twin.p.detailedNDens}
        for key, tol in (("pin", F32), ("det", REL)):
            if prev[key] is not None:
                ok = end[key] is not None and end[key].shape == prev[key].shape and not (abs(end[key] - prev[key]) > tol * abs(prev[key])).any()
                out.check(ok, "path/end-state-depends-on-path", lambda: "%s %s: p.%s after path %s differs from one jump" % (
                    shape, name, "pinNDens" if key == "pin" else "detailedNDens", temps))
        for d in names:
            a, b = comp.getDimension(d), twin.getDimension(d)
            out.check(_close(a, b), "path/end-state-depends-on-path",
                      lambda: "%s %s: %s after path %s is %r, after one jump %r" % (shape, name, d, temps, a, b))
        a, b = comp.getArea(), twin.getArea()
        out.check(_close(a, b), "path/end-state-depends-on-path", lambda: "%s %s: area after path %s %r, one jump %r" % (shape, name, temps, a, b))
        nd_a, nd_b = comp.getNumberDensities(), twin.getNumberDensities()
        for n in sorted(nd_a):
            if not out.check(_close(nd_a[n], nd_b.get(n, 0.0)), "path/end-state-depends-on-path",
                             lambda: "%s %s: N(%s) after path %s = %r, after one jump %r" % (shape, name, n, temps, nd_a[n], nd_b.get(n))):
                break
        out.label("path-vs-jump")

    if expands:
        out.nontrivial = any(abs(a - b) >= 50.0 and dll(a) != dll(b) for a, b in zip(temps, temps[1:]))
    else:
        out.nontrivial = any(abs(a - b) >= 50.0 for a, b in zip(temps, temps[1:]))
    out.label("T-steps:%d" % min(n_t, 6))
    if zeros:
        if temps[-1] in zeros and n_t:
            out.label("exact-dLL-zero:path-end")
        elif any(t in zeros for t in temps[1:]):
            out.label("exact-dLL-zero:intermediate")
        if t_in in zeros:
            out.label("exact-dLL-zero:Tinput")
    return out


def _nomodel(out, comp, case, temp, names, cold, shape, name):
    """Solids whose linearExpansionPercent is identically 0: built at Tinput they read their cold dimensions; a
    hot read is refused with the documented RuntimeError."""
    for d in names:
        out.check(comp.getDimension(d) == cold[d], "nomodel/dimension-at-input-temperature",
                  "%s %s: %s reads %r, input %r" % (shape, name, d, comp.getDimension(d), cold[d]))
    t_new = None
    for op in case["path"]:
        if op["op"] == "T" and abs(temp(op["u"]) - comp.temperatureInC) > 1.0:
            t_new = temp(op["u"])
            break
    if t_new is None:
        return out
    nd = dict(comp.getNumberDensities())
    comp.setTemperature(t_new)
    out.check(nd == dict(comp.getNumberDensities()), "nomodel/density-changed", "%s %s" % (shape, name))
    try:
        comp.getArea()
    except RuntimeError:
        out.rejected = True
        out.label("rejected:no-expansion-model")
        return out
    out.fail("nomodel/hot-read-not-refused", "%s %s: getArea() at %r C (input %r C) did not raise although "
             "linearExpansionPercent gives no expansion" % (shape, name, t_new, comp.inputTemperatureInC))
    return out


# ---- generators for the single-component parts

_GRID_N = {"quick": 5, "thorough": 200}
_GRID_NF = {"quick": 2, "thorough": 40}
_SPECIAL = [0.0, 1.0, 0.5, -1.0, -2.0]


def _frac(*key):
    u = _u(*key)
    if u < 0.20:
        return _SPECIAL[int(u / 0.04)]
    return _u(*key + ("v",))


def _grid_case(seed, shape, name, k):
    key = (seed, shape, name, k)
    if k == 0:
        # canonical: input at the low end of the window, built in the middle, up to the top, down to the bottom
        return {"shape": shape, "material": name, "scale": 1.0, "q": [0.5, 0.5, 0.5, 0.5], "mult": 7, "nHoles": 7,
                "tin": 0.0, "t0": 0.5, "mods": None, "parent": True, "height": 10.0, "extra": {"pin": 3, "det": 0, "u": 0.5},
                "path": [{"op": "T", "u": 1.0}, {"op": "T", "u": 0.0}, {"op": "hot", "d": 0, "u": 0.5}, {"op": "T", "u": 0.7}]}
    if k == 1:
        # input exactly where the material's own correlation is zero, heat up, come back to exactly that temperature, twice
        return {"shape": shape, "material": name, "scale": 2.0, "q": [0.4, 0.3, 0.6, 0.5], "mult": 19, "nHoles": 3,
                "tin": -2.0, "t0": 0.5, "mods": None, "parent": True, "height": 7.5, "extra": {"pin": 0, "det": 5, "u": 0.25},
                "path": [{"op": "T", "u": -2.0}, {"op": "T", "u": 1.0}, {"op": "T", "u": -2.0}, {"op": "T", "u": 0.3}, {"op": "T", "u": -2.0}]}
    n = 1 + int(_u(*key + ("n",)) * 6)
    path = []
    for i in range(n):
        if _u(*key + ("hot", i)) < 0.2:
            path.append({"op": "hot", "d": int(_u(*key + ("d", i)) * 4), "u": _u(*key + ("hu", i))})
        path.append({"op": "T", "u": _frac(*key + ("T", i))})
    return {
        "shape": shape, "material": name,
        "scale": math.exp(math.log(0.01) + _u(*key + ("s",)) * (math.log(50.0) - math.log(0.01))),
        "q": [_u(*key + ("q", i)) for i in range(4)],
        "mult": 1 + int(_u(*key + ("m",)) * 271), "nHoles": [1, 2, 3, 7, 19][int(_u(*key + ("h",)) * 5)],
        "tin": _frac(*key + ("tin",)), "t0": _frac(*key + ("t0",)),
        "mods": [_u(*key + ("mod", 0)), _u(*key + ("mod", 1))] if _u(*key + ("mods",)) < 0.5 else None,
        "parent": _u(*key + ("p",)) < 0.5, "height": 0.5 + 199.5 * _u(*key + ("ht",)),
        "extra": {"pin": [0, 0, 0, 1, 3, 7][int(_u(*key + ("xp",)) * 6)], "det": [0, 0, 0, 1, 5, 40][int(_u(*key + ("xd",)) * 6)],
                  "u": _u(*key + ("xu",))},
        "path": path,
    }


def grid_enum(tier):
    seed = _seed()
    cases = []
    for shape in SHAPE_NAMES:
        for name in SOLIDS:
            for k in range(_GRID_N[tier]):
                cases.append(_grid_case(seed, shape, name, k))
        for name in KEEPERS:
            for k in range(_GRID_NF[tier]):
                cases.append(_exclude_known(_grid_case(seed, shape, name, k)))
        for name in NO_MODEL:
            cases.append(_grid_case(seed, shape, name, 0))
    return cases


def _ufrac():
    return st.one_of(st.floats(0.0, 1.0), st.sampled_from(_SPECIAL))


def _merge_path(t):
    """(n, six temperature fractions, hot writes with a position) -> operation list with n temperature steps."""
    n, us, hots = t
    path = [{"op": "T", "u": u} for u in us[:n]]
    for pos, d, u in hots:
        path.insert(pos % (len(path) + 1), {"op": "hot", "d": d, "u": u})
    return path


def paths_strategy(tier):
    path = st.tuples(
        st.sampled_from([3, 1, 2, 4, 5, 6]),
        st.lists(_ufrac(), min_size=6, max_size=6),
        st.lists(st.tuples(st.integers(0, 6), st.integers(0, 3), st.floats(0.0, 1.0)), max_size=2),
    ).map(_merge_path)
    return st.fixed_dictionaries({
        "shape": st.sampled_from(SHAPE_NAMES),
        "material": st.sampled_from(SOLIDS * 4 + KEEPERS + ["Custom"] * 3),
        "scale": st.floats(0.01, 50.0),
        "q": st.lists(st.floats(0.0, 1.0), min_size=4, max_size=4),
        "mult": st.integers(1, 271),
        "nHoles": st.sampled_from([1, 2, 3, 7, 19]),
        "tin": _ufrac(),
        "t0": _ufrac(),
        "path": path,
        "mods": st.one_of(st.lists(st.floats(0.0, 1.0), min_size=2, max_size=2), st.none()),
        "parent": st.sampled_from([True, False]),
        "height": st.floats(0.5, 200.0),
        "extra": st.fixed_dictionaries({"pin": st.sampled_from([3, 0, 1, 7]), "det": st.sampled_from([0, 5, 1, 40]),
                                        "u": st.floats(0.0, 1.0)}),
    }).map(_exclude_known)


# ------------------------------------------------------------------------------------------------
# census: the pinned domain is the library

def census_enum(tier):
    return [{"census": True}]


def census_execute(case):
    import armi.materials as pkg
    from armi import materials
    from armi.materials import custom
    from armi.materials import material as mm
    from armi.reactor.components import ComponentType

    out = Out()
    found = {}
    for cls in materials.iterAllMaterialClassesInNamespace(pkg):
        if cls.__name__ in ABSTRACT:
            continue
        found[cls.__name__] = cls
    out.evals = len(found)
    out.nontrivial_count = len(found)
    for n in sorted(set(KIND) - set(found)):
        out.fail("census/pinned-material-missing", "material %s is not in armi.materials" % n)
    for n in sorted(found):
        m = found[n]()
        if isinstance(m, mm.Fluid):
            kind = "fluid"
        elif isinstance(m, custom.Custom):
            kind = "custom"
        else:
            lo, hi, _s = _window(m, "solid")
            vals = {float(m.linearExpansionPercent(Tc=lo + i * (hi - lo) / 8.0)) for i in range(9)}
            kind = "solid" if vals != {0.0} else "nomodel"
        out.label("census:" + kind)
        if n not in KIND:
            out.label("unpinned-material:" + n)
            continue
        out.check(KIND[n] == kind, "census/material-kind-differs-from-pinned-table",
                  "material %s is classified %s, the harness table says %s" % (n, kind, KIND[n]))
    two_d = sorted(k for k, v in ComponentType.TYPES.items() if not v.is3D)
    outside = {"component", "shapedcomponent", "nullcomponent", "derivedshape"}
    mine = {s.lower() for s in SHAPE_NAMES}
    for k in two_d:
        if k not in mine and k not in outside and ComponentType.TYPES[k].__module__.startswith("armi.reactor.components"):
            out.label("unpinned-shape:" + k)
    for s in SHAPE_NAMES:
        cls = ComponentType.TYPES[s.lower()]
        want = {d for d, _r in SHAPES[s]["expand"]}
        got = set(cls.THERMAL_EXPANSION_DIMS)
        out.check(want <= got, "census/length-not-declared-as-expanding",
                  lambda: "%s: cross-section lengths %s, THERMAL_EXPANSION_DIMS %s" % (s, sorted(want), sorted(got)))
    return out


# ------------------------------------------------------------------------------------------------
# linked dimensions: 2-4 components in a block, built the way BlockBlueprint.construct does

LINK_FLUIDS = ["Void", "Sodium", "Lead", "LeadBismuth", "SaturatedWater", "Potassium", "Cs", "Lithium", "Magnesium"]
TEMPLATES = ["pin2", "pin3", "pin4", "annular", "duct2", "duct3", "rect2", "chain3", "modadd", "modsub"]
_LSHAPE_DIMS = {
    "Circle": ["od", "id"],
    "Hexagon": ["op", "ip"],
    "Rectangle": ["lengthOuter", "lengthInner", "widthOuter", "widthInner"],
    "SolidRectangle": ["lengthOuter", "widthOuter"],
}


def _linked_specs(case):
    """[(name, shape, 'S'|'F', {dim: number | 'other.dim'})]; fluids sit between solids and take their borders."""
    t = case["template"]
    s = float(case["scale"])
    q = case["q"]
    m = case["mult"]

    def gap(u):  # relative diametral gap: small enough that hot overlap of a fluid gap happens sometimes
        return 0.004 + 0.12 * u

    def wall(u):  # solids that follow a neighbour keep >= 15 % wall so that their area stays positive
        return 0.15 + 0.3 * u

    if t == "pin2":
        return [("fuel", "Circle", "S", {"od": s, "id": s * _inner(q[0]), "mult": m}),
                ("bond", "Circle", "F", {"id": "fuel.od", "od": s * (1 + gap(q[1])), "mult": "fuel.mult"})]
    if t == "pin3":
        cid = s * (1 + gap(q[1]))
        return [("fuel", "Circle", "S", {"od": s, "id": s * _inner(q[0]), "mult": m}),
                ("gap", "Circle", "F", {"id": "fuel.od", "od": "clad.id", "mult": "fuel.mult"}),
                ("clad", "Circle", "S", {"id": cid, "od": cid * (1 + wall(q[2])), "mult": m})]
    if t == "pin4":
        lid = s * (1 + gap(q[1]))
        lod = lid * (1 + wall(q[2]))
        return [("fuel", "Circle", "S", {"od": s, "id": s * _inner(q[0]), "mult": m}),
                ("gap", "Circle", "F", {"id": "fuel.od", "od": "inner liner.id", "mult": "fuel.mult"}),
                ("inner liner", "Circle", "S", {"id": lid, "od": lod, "mult": m}),
                ("clad", "Circle", "S", {"id": "inner liner.od", "od": lod * (1 + wall(q[3])), "mult": "fuel.mult"})]
    if t == "annular":
        fid = s * (0.2 + 0.6 * q[0])
        cid = s * (1 + gap(q[1]))
        return [("void", "Circle", "F", {"id": 0.0, "od": "fuel.id", "mult": "fuel.mult"}),
                ("fuel", "Circle", "S", {"od": s, "id": fid, "mult": m}),
                ("gap", "Circle", "F", {"id": "fuel.od", "od": "clad.id", "mult": "fuel.mult"}),
                ("clad", "Circle", "S", {"id": cid, "od": cid * (1 + wall(q[2])), "mult": m})]
    if t == "duct2":
        return [("duct", "Hexagon", "S", {"op": s, "ip": s * (0.5 + 0.45 * q[0]), "mult": 1}),
                ("intercoolant", "Hexagon", "F", {"ip": "duct.op", "op": s * (1 + gap(q[1])), "mult": 1})]
    if t == "duct3":
        oip = s * (1 + gap(q[1]))
        return [("inner duct", "Hexagon", "S", {"op": s, "ip": s * (0.5 + 0.45 * q[0]), "mult": 1}),
                ("gap", "Hexagon", "F", {"ip": "inner duct.op", "op": "outer duct.ip", "mult": 1}),
                ("outer duct", "Hexagon", "S", {"ip": oip, "op": oip * (1 + wall(q[2])), "mult": 1})]
    if t == "rect2":
        w = s * (0.1 + 2.0 * q[0])
        return [("plate", "Rectangle", "S", {"lengthOuter": s, "lengthInner": 0.0, "widthOuter": w, "widthInner": 0.0, "mult": m}),
                ("channel", "Rectangle", "F", {"lengthInner": "plate.lengthOuter", "widthInner": "plate.widthOuter",
                                               "lengthOuter": s * (1 + gap(q[1])), "widthOuter": w * (1 + gap(q[2])),
                                               "mult": "plate.mult"})]
    if t == "chain3":
        od1 = s
        od2 = od1 * (1 + wall(q[1]))
        return [("liner1", "Circle", "S", {"id": s * (0.3 + 0.5 * q[0]), "od": od1, "mult": m}),
                ("liner2", "Circle", "S", {"id": "liner1.od", "od": od2, "mult": m}),
                ("clad", "Circle", "S", {"id": "liner2.od", "od": od2 * (1 + wall(q[2])), "mult": "liner1.mult"})]
    # documented area modifications ("<name>.add" / "<name>.sub"; the referenced component is defined first)
    if t == "modadd":
        return [("skids", "SolidRectangle", "S", {"lengthOuter": 0.1 * s * (1 + q[1]), "widthOuter": 0.04 * s * (1 + q[2]), "mult": 6}),
                ("duct", "Hexagon", "S", {"op": s, "ip": s * (0.5 + 0.45 * q[0]), "mult": 1, "modArea": "skids.add"})]
    if t == "modsub":
        return [("rods", "Circle", "S", {"od": 0.1 * s * (1 + q[1]), "id": 0.0, "mult": 1 + m % 8}),
                ("plate", "Rectangle", "S", {"lengthOuter": s, "lengthInner": 0.0, "widthOuter": s * (0.5 + q[2]), "widthInner": 0.0,
                                             "mult": 1, "modArea": "rods.sub"})]
    raise KeyError(t)


def _area_formula(shape, dims):
    if shape == "SolidRectangle":
        return dims["mult"] * dims["lengthOuter"] * dims["widthOuter"]
    if shape == "Circle":
        return dims["mult"] * math.pi * (dims["od"] ** 2 - dims["id"] ** 2) / 4.0
    if shape == "Hexagon":
        return dims["mult"] * math.sqrt(3.0) / 2.0 * (dims["op"] ** 2 - dims["ip"] ** 2)
    return dims["mult"] * (dims["lengthOuter"] * dims["widthOuter"] - dims["lengthInner"] * dims["widthInner"])


def linked_execute(case):
    import copy

    from armi.reactor import blocks, components

    out = Out()
    specs = _linked_specs(case)
    out.label("template:" + case["template"], "comps:%d" % len(specs))
    height = float(case["height"])
    n = len(specs)
    model = []
    solid_slot = 0
    for i, (cname, shape, role, dims) in enumerate(specs):
        if role == "S":
            matname = SOLIDS[case["mats"][solid_slot % len(case["mats"])] % len(SOLIDS)]
            solid_slot += 1
            kind = "solid"
        else:
            matname = LINK_FLUIDS[case["fluid"] % len(LINK_FLUIDS)]
            kind = "fluid"
        ref = _make_material(matname, None)
        lo, hi, _stated = _window(ref, kind)
        if kind == "fluid":
            lo = 100.0
        model.append({"name": cname, "shape": shape, "kind": kind, "mat": matname, "ref": ref, "lo": lo, "hi": hi,
                      "dims": dict(dims), "zeros": _zeros(matname) if kind == "solid" else (),
                      "Tin": _temp(lo, hi, case["tin"][i], _zeros(matname) if kind == "solid" else ()),
                      "T": _temp(lo, hi, case["t0"][i], _zeros(matname) if kind == "solid" else ())})
        out.label("mat:" + matname)
    index = {mm_["name"]: i for i, mm_ in enumerate(model)}

    def dll(i, t):
        return float(model[i]["ref"].linearExpansionPercent(Tc=t)) if model[i]["kind"] == "solid" else 0.0

    def f(i, t=None):
        mi = model[i]
        if mi["kind"] != "solid":
            return 1.0
        t = mi["T"] if t is None else t
        return (100.0 + dll(i, t)) / (100.0 + dll(i, mi["Tin"]))

    def link_of(i, d):
        v = model[i]["dims"][d]
        if isinstance(v, str):
            tgt, td = v.rsplit(".", 1)
            return index[tgt], td
        return None

    def hot(i, d, t=None):
        lk = link_of(i, d)
        if lk:
            return hot(lk[0], lk[1], t)
        v = model[i]["dims"][d]
        if d != "mult" and model[i]["kind"] == "solid":
            return v * f(i, t)
        return v

    def model_area(i, t=None, cold=False):
        """Area of component i from the harness model (own area +/- the referenced component's), at its current
        state, at a hypothetical common temperature t, or cold."""
        def own(j):
            names_ = _LSHAPE_DIMS[model[j]["shape"]] + ["mult"]
            return _area_formula(model[j]["shape"], {d: (coldv(j, d) if cold else hot(j, d, t)) for d in names_})
        a = own(i)
        mod = model[i]["dims"].get("modArea")
        if mod:
            j, how = link_of(i, "modArea")
            a += own(j) if how == "add" else -own(j)
        return a

    def coldv(i, d):
        lk = link_of(i, d)
        return coldv(*lk) if lk else model[i]["dims"][d]

    # temperatures each op will visit; flat dLL is refused by armi by design
    ops = []
    for op in case["ops"]:
        i = op["c"] % n
        mi = model[i]
        if op["op"] == "T":
            ops.append(("T", i, op["u"]))  # resolved against the window of the material the component has then
        elif op["op"] == "mat":
            if mi["kind"] == "solid":
                ops.append(("mat", i, op["m"]))
        elif op["op"] == "copy":
            holders = [j for j, mj in enumerate(model) if any(isinstance(v, str) for v in mj["dims"].values())]
            ops.append(("copy", holders[op["c"] % len(holders)]))
        elif op["op"] == "bcopy":
            ops.append(("bcopy", 0))
        elif op["op"] in ("lhot", "lcold"):
            # a write THROUGH a link: setDimension(linked dim, v, retainLink=True, cold=...) on a component that has one
            linkers = [j for j, mj in enumerate(model) if any(link_of(j, d) for d in _LSHAPE_DIMS[mj["shape"]])]
            if not linkers:
                continue
            j = linkers[op["c"] % len(linkers)]
            ldims = [d for d in _LSHAPE_DIMS[model[j]["shape"]] if link_of(j, d)]
            ops.append((op["op"], j, ldims[op["d"] % len(ldims)], op["u"]))
        else:
            own = [d for d in _LSHAPE_DIMS[mi["shape"]] if not link_of(i, d) and mi["dims"][d]]
            if mi["kind"] == "solid" and own:
                ops.append((op["op"], i, own[op["d"] % len(own)], op["u"]))
    for i, mi in enumerate(model):
        if mi["kind"] == "solid":
            ts = [mi["T"]]  # (a later step that would land on a flat dLL is skipped when it is reached)
            if any(t != mi["Tin"] and dll(i, t) == dll(i, mi["Tin"]) for t in ts):
                out.rejected = True
                out.label("rejected:flat-dLL")
                return out

    # ---- build like BlockBlueprint.construct: components first (links are strings), then resolve, then add
    comps = {}
    for mi in model:
        args = dict(name=mi["name"], material=_make_material(mi["mat"], None), Tinput=mi["Tin"], Thot=mi["T"])
        args.update(mi["dims"])
        comps[mi["name"]] = components.factory(mi["shape"].lower(), [], args)
    for c in comps.values():
        c.resolveLinkedDims(comps)
    blk = blocks.HexBlock("blk", height=height)
    for c in comps.values():
        blk.add(c)
    clist = [comps[mi["name"]] for mi in model]
    unlinked = [i for i, mi in enumerate(model) if mi["kind"] == "solid" and not any(isinstance(v, str) for v in mi["dims"].values())]
    refmass = {}
    weights = {i: _weights(sorted(clist[i].getNumberDensities())) for i in unlinked}

    def lin_mass(i):
        nd = clist[i].getNumberDensities()
        return clist[i].getArea() * sum(nd[k] * weights[i][k] for k in sorted(nd))

    overlap = [False]

    def check_all(what):
        for i, mi in enumerate(model):
            c = clist[i]
            got = {}
            for d in _LSHAPE_DIMS[mi["shape"]] + ["mult"]:
                g = c.getDimension(d)
                got[d] = g
                want = hot(i, d)
                lk = link_of(i, d)
                if lk:
                    tgt = clist[lk[0]]
                    out.check(g == tgt.getDimension(lk[1]), "link/linked-dimension-differs-from-target-read",
                              lambda: "%s: %s.%s = %r but %s.%s = %r" % (what, mi["name"], d, g, tgt.name, lk[1], tgt.getDimension(lk[1])))
                    out.check(_close(g, want), "link/linked-dimension-not-target-current-dimension",
                              lambda: "%s: %s.%s (-> %s) = %r, target's cold * f(T_target) = %r" % (what, mi["name"], d, mi["dims"][d], g, want))
                    out.check(c.getDimension(d, cold=True) == tgt.getDimension(lk[1], cold=True) and _close(c.getDimension(d, cold=True), coldv(i, d), TIGHT),
                              "link/cold-linked-dimension", lambda: "%s: %s.%s cold = %r, target cold %r" % (what, mi["name"], d, c.getDimension(d, cold=True), coldv(i, d)))
                elif mi["kind"] == "solid" and d != "mult":
                    out.check(_close(g, want), "dims/expanding-dimension-not-cold-times-f",
                              lambda: "%s: %s.%s (%s at %.6f C) = %r, cold %r * f = %r" % (what, mi["name"], d, mi["mat"], mi["T"], g, mi["dims"][d], want))
                else:
                    out.check(g == want, "fluid/dimension-changed" if d != "mult" else "dims/non-expanding-dimension-changed",
                              lambda: "%s: %s.%s = %r, input %r" % (what, mi["name"], d, g, want))
            scale2 = max(abs(got[d]) for d in _LSHAPE_DIMS[mi["shape"]]) ** 2 * max(1.0, got["mult"])
            area = c.getArea()
            fa = _area_formula(mi["shape"], got)
            if mi["dims"].get("modArea"):
                j, how = link_of(i, "modArea")
                oth = _area_formula(model[j]["shape"], {d: clist[j].getDimension(d) for d in _LSHAPE_DIMS[model[j]["shape"]] + ["mult"]})
                fa += oth if how == "add" else -oth
                # the same composition at a requested common temperature (inside both materials' windows) and cold
                lo_ = max(mi["lo"], model[j]["lo"])
                hi_ = min(mi["hi"], model[j]["hi"])
                tp = lo_ + float(case.get("tp", 0.5)) * (hi_ - lo_)
                if dll(i, tp) != dll(i, mi["Tin"]) and dll(j, tp) != dll(j, model[j]["Tin"]):
                    ga, ma = c.getArea(Tc=tp), model_area(i, tp)
                    out.check(_close(ga, ma), "area/modArea-at-Tc-not-composed-at-Tc",
                              lambda: "%s: %s (modArea %s; %s at %.6f C, %s at %.6f C): getArea(Tc=%r) = %r, own(Tc) %s other(Tc) from cold*f(Tc) = %r" % (
                                  what, mi["name"], mi["dims"]["modArea"], mi["name"], mi["T"], model[j]["name"], model[j]["T"], tp, ga,
                                  "+" if how == "add" else "-", ma))
                    out.label("modArea-preview:" + how)
                gc, mc = c.getArea(cold=True), model_area(i, cold=True)
                out.check(_close(gc, mc, TIGHT), "area/modArea-cold", lambda: "%s: %s cold area %r, model %r" % (what, mi["name"], gc, mc))
            if fa < 0:
                overlap[0] = True
            out.check(_close(area, fa, TIGHT, 1e-13 * scale2), "area/not-from-current-dimensions",
                      lambda: "%s: %s area %r, from its current dimensions %r" % (what, mi["name"], area, fa))
            vol = c.getVolume()
            out.check(_close(vol, area * height, TIGHT, 1e-13 * scale2 * height), "cache/volume-stale",
                      lambda: "%s: %s getVolume %r, area*height %r" % (what, mi["name"], vol, area * height))
        # copy.copy of a component: its links keep pointing at the ORIGINAL siblings and follow them
        for cpn, (cp, i) in enumerate(copies):
            mi = model[i]
            cdims = {}
            for d in _LSHAPE_DIMS[mi["shape"]] + ["mult"]:
                cdims[d] = cp.getDimension(d)
                lk = link_of(i, d)
                if not lk:
                    continue
                tgt = clist[lk[0]]
                held = cp.p[d]
                out.check(cp.dimensionIsLinked(d) and held.getLinkedComponent() is tgt and held[1] == lk[1], "copy/link-of-copy-not-the-original-sibling",
                          lambda: "%s: copy.copy(%s).%s holds %r whose component is%s the %s in the block" % (
                              what, mi["name"], d, held, "" if held.getLinkedComponent() is tgt else " NOT", tgt.name))
                out.check(cdims[d] == tgt.getDimension(lk[1]) and _close(cdims[d], hot(i, d)), "copy/linked-dimension-of-copy-not-target-current-dimension",
                          lambda: "%s: copy #%d of %s: %s (-> %s) = %r, live %s.%s = %r, cold*f(T_target) = %r" % (
                              what, cpn, mi["name"], d, mi["dims"][d], cdims[d], tgt.name, lk[1], tgt.getDimension(lk[1]), hot(i, d)))
            fa = _area_formula(mi["shape"], cdims)
            if mi["dims"].get("modArea"):
                j, how = link_of(i, "modArea")
                held = cp.p["modArea"]
                out.check(held.getLinkedComponent() is clist[j], "copy/link-of-copy-not-the-original-sibling",
                          lambda: "%s: copy.copy(%s).modArea holds %r, not the %s in the block" % (what, mi["name"], held, clist[j].name))
                oth = _area_formula(model[j]["shape"], {d: clist[j].getDimension(d) for d in _LSHAPE_DIMS[model[j]["shape"]] + ["mult"]})
                fa += oth if how == "add" else -oth
            sc = max(abs(cdims[d]) for d in _LSHAPE_DIMS[mi["shape"]]) ** 2 * max(1.0, cdims["mult"])
            out.check(_close(cp.getArea(), fa, TIGHT, 1e-13 * sc), "copy/area-of-copy-not-from-current-dimensions",
                      lambda: "%s: copy #%d of %s area %r, from its current dimensions %r" % (what, cpn, mi["name"], cp.getArea(), fa))
        # copy.deepcopy of the block: links point at the copied siblings; the copy is untouched by later steps
        for b2, snap in deepcopies:
            kids = {c_.name: c_ for c_ in b2}
            for i, mi in enumerate(model):
                for d in _LSHAPE_DIMS[mi["shape"]] + ["mult"]:
                    lk = link_of(i, d)
                    c2 = kids[mi["name"]]
                    if lk:
                        held = c2.p[d]
                        t2 = kids[model[lk[0]]["name"]]
                        out.check(held.getLinkedComponent() is t2 and held.getLinkedComponent() is not clist[lk[0]],
                                  "copy/link-in-deepcopied-block-not-the-copied-sibling",
                                  lambda: "%s: deepcopy(block): %s.%s holds %r" % (what, mi["name"], d, held))
                        out.check(c2.getDimension(d) == t2.getDimension(lk[1]), "copy/link-in-deepcopied-block-not-the-copied-sibling",
                                  lambda: "%s: deepcopy(block): %s.%s = %r, copied %s.%s = %r" % (
                                      what, mi["name"], d, c2.getDimension(d), t2.name, lk[1], t2.getDimension(lk[1])))
                    out.check(c2.getDimension(d) == snap[(i, d)], "copy/deepcopied-block-follows-the-original",
                              lambda: "%s: deepcopy(block): %s.%s was %r when copied, now %r" % (what, mi["name"], d, snap[(i, d)], c2.getDimension(d)))
        for i in unlinked:
            m = lin_mass(i)
            if i in refmass:
                out.check(_close(m, refmass[i]), "mass/per-unit-height-not-conserved",
                          lambda: "%s: %s (%s) A*sum(N*A_i) = %r, reference %r" % (what, model[i]["name"], model[i]["mat"], m, refmass[i]))
            else:
                refmass[i] = m

    copies, deepcopies = [], []
    check_all("after construction")
    nontrivial = False
    for k, op in enumerate(ops):
        i = op[1]
        mi = model[i]
        c = clist[i]
        if op[0] == "copy":
            copies.append((copy.copy(c), i))
            what = "step %d: copy.copy(%s)" % (k, mi["name"])
            out.label("op:copy")
        elif op[0] == "bcopy":
            b2 = copy.deepcopy(blk)
            kids = {c_.name: c_ for c_ in b2}
            deepcopies.append((b2, {(j, d): kids[mj["name"]].getDimension(d) for j, mj in enumerate(model)
                                    for d in _LSHAPE_DIMS[mj["shape"]] + ["mult"]}))
            what = "step %d: copy.deepcopy(block)" % k
            out.label("op:deepcopy-block")
        elif op[0] == "mat":
            # exchange the material through the public setProperties, then set the composition the way __init__ does;
            # the new material must cover the component's input and current temperature
            new = None
            for kk in range(len(SOLIDS)):
                cand = SOLIDS[(op[2] + kk) % len(SOLIDS)]
                if cand == mi["mat"]:
                    continue
                r2 = _make_material(cand, None)
                lo2, hi2, _s2 = _window(r2, "solid")
                if not (lo2 <= mi["Tin"] <= hi2 and lo2 <= mi["T"] <= hi2):
                    continue
                if mi["T"] != mi["Tin"] and float(r2.linearExpansionPercent(Tc=mi["T"])) == float(r2.linearExpansionPercent(Tc=mi["Tin"])):
                    continue
                new = (cand, r2, lo2, hi2)
                break
            if new is None:
                out.label("skipped:no-material-covers-the-temperatures")
                continue
            f_old = f(i)
            what = "step %d: setProperties(%s: %s -> %s) at %.6f C (input %.6f C)" % (k, mi["name"], mi["mat"], new[0], mi["T"], mi["Tin"])
            c.setProperties(_make_material(new[0], None) if op[2] % 2 else new[0])
            c.applyMaterialMassFracsToNumberDensities()
            mi["mat"], mi["ref"], mi["lo"], mi["hi"] = new
            mi["zeros"] = _zeros(new[0])
            refmass.pop(i, None)
            if i in weights:
                weights[i] = _weights(sorted(c.getNumberDensities()))
            if abs(f(i) - f_old) > 1e-6:
                nontrivial = True
                out.label("material-exchange:expansion-differs")
            out.label("op:material-exchange")
        elif op[0] == "T":
            t_new = _temp(mi["lo"], mi["hi"], op[2], mi["zeros"])
            if mi["kind"] == "solid" and t_new != mi["Tin"] and dll(i, t_new) == dll(i, mi["Tin"]):
                out.label("skipped:flat-dLL")
                continue
            involved = any(link_of(j, d) and link_of(j, d)[0] == i for j, mj in enumerate(model) for d in mj["dims"])
            if mi["kind"] == "solid" and involved and abs(t_new - mi["T"]) >= 50.0 and dll(i, t_new) != dll(i, mi["T"]):
                nontrivial = True
            c.setTemperature(t_new)
            what = "step %d: %s (%s) %.6f -> %.6f C" % (k, mi["name"], mi["mat"], mi["T"], t_new)
            mi["T"] = t_new
            out.label("op:T-solid" if mi["kind"] == "solid" else "op:T-fluid")
        elif op[0] in ("lhot", "lcold"):
            # retainLink=True: "the val will be applied to the dimension of linked component which indirectly changes
            # this component's dimensions"; cold=False: the value is a hot one at the target's current temperature
            d, u = op[2], op[3]
            ti, td = link_of(i, d)
            tgt, mt = clist[ti], model[ti]
            grow = td in ("od", "op", "lengthOuter", "widthOuter")
            if op[0] == "lhot":
                cur = c.getDimension(d)
                v = cur * (1.0 + 0.005 * u) if grow else cur * (1.0 - 0.005 * u)
                c.setDimension(d, v, retainLink=True, cold=False)
                mt["dims"][td] = v / f(ti)
                g1, g2 = c.getDimension(d), tgt.getDimension(td)
                out.check(_close(g1, v, TIGHT) and _close(g2, v, TIGHT), "link/hot-write-through-link-readback",
                          lambda: "setDimension(%s.%s -> %s.%s, %r, retainLink=True, cold=False) with %s (%s) at %.6f C, input %.6f C: "
                                  "%s.%s reads %r, %s.%s reads %r" % (mi["name"], d, mt["name"], td, v, mt["name"], mt["mat"], mt["T"],
                                                                    mt["Tin"], mi["name"], d, g1, mt["name"], td, g2))
                gc = tgt.getDimension(td, cold=True)
                out.check(_close(gc, v / f(ti)), "link/hot-write-through-link-cold-value",
                          lambda: "after the hot write of %r through %s.%s the cold %s.%s is %r, expected v/f = %r" % (
                              v, mi["name"], d, mt["name"], td, gc, v / f(ti)))
                if mt["kind"] == "solid" and abs(f(ti) - 1.0) > 1e-6:
                    nontrivial = True
                    out.label("link-hot-write:target-expanded")
            else:
                cur = c.getDimension(d, cold=True)
                vc = cur * (1.0 + 0.005 * u) if grow else cur * (1.0 - 0.005 * u)
                c.setDimension(d, vc, retainLink=True, cold=True)
                mt["dims"][td] = vc
                g1, g2 = c.getDimension(d, cold=True), tgt.getDimension(td, cold=True)
                out.check(g1 == vc and g2 == vc, "link/cold-write-through-link",
                          lambda: "setDimension(%s.%s -> %s.%s, %r, retainLink=True, cold=True): cold %s.%s reads %r, cold %s.%s reads %r" % (
                              mi["name"], d, mt["name"], td, vc, mi["name"], d, g1, mt["name"], td, g2))
            lk = c.p[d]
            out.check(c.dimensionIsLinked(d) and lk.getLinkedComponent() is tgt and lk[1] == td, "link/write-with-retainLink-broke-link",
                      lambda: "%s.%s after setDimension(retainLink=True) holds %r" % (mi["name"], d, lk))
            refmass.pop(ti, None)  # the target's amount of material changed with its dimension
            what = "step %d: %s write through %s.%s -> %s.%s" % (k, "hot" if op[0] == "lhot" else "cold", mi["name"], d, mt["name"], td)
            out.label("op:link-" + ("hot" if op[0] == "lhot" else "cold") + "-write")
        else:
            d, u = op[2], op[3]
            cur = c.getDimension(d)
            v = cur * (1.0 + 0.005 * u) if d in ("od", "op", "lengthOuter", "widthOuter") else cur * (1.0 - 0.005 * u)
            if op[0] == "hot":
                c.setDimension(d, v, cold=False)
                mi["dims"][d] = v / f(i)
                out.check(_close(c.getDimension(d), v, TIGHT), "dims/hot-write-readback",
                          lambda: "%s.%s hot write %r reads %r" % (mi["name"], d, v, c.getDimension(d)))
            else:
                vc = v / f(i)
                c.setDimension(d, vc)
                mi["dims"][d] = vc
            refmass.pop(i, None)
            what = "step %d: %s write of %s.%s" % (k, op[0], mi["name"], d)
            out.label("op:" + op[0] + "-write")
        check_all(what)
    out.nontrivial = nontrivial
    if overlap[0]:
        out.label("hot-overlap-of-fluid-gap")
    return out


def linked_strategy(tier):
    op_t = st.fixed_dictionaries({"op": st.just("T"), "c": st.integers(0, 3), "u": _ufrac()})
    op_w = st.fixed_dictionaries({"op": st.sampled_from(["hot", "cold"]), "c": st.integers(0, 3), "d": st.integers(0, 3),
                                  "u": st.floats(0.0, 1.0)})
    op_l = st.fixed_dictionaries({"op": st.sampled_from(["lhot", "lcold"]), "c": st.integers(0, 3), "d": st.integers(0, 3),
                                  "u": st.floats(0.0, 1.0)})
    op_m = st.fixed_dictionaries({"op": st.just("mat"), "c": st.integers(0, 3), "m": st.integers(0, len(SOLIDS) - 1)})
    op_c = st.fixed_dictionaries({"op": st.sampled_from(["copy", "bcopy"]), "c": st.integers(0, 3)})
    op_t = st.one_of(op_t, op_t.map(dict), op_t.map(lambda o: dict(o)))  # temperature steps stay the most frequent operation
    return st.fixed_dictionaries({
        "template": st.sampled_from(TEMPLATES),
        "scale": st.floats(0.05, 30.0),
        "q": st.lists(st.floats(0.0, 1.0), min_size=4, max_size=4),
        "mult": st.integers(1, 271),
        "mats": st.lists(st.integers(0, len(SOLIDS) - 1), min_size=3, max_size=3),
        "fluid": st.integers(0, len(LINK_FLUIDS) - 1),
        "tin": st.lists(_ufrac(), min_size=4, max_size=4),
        "t0": st.lists(_ufrac(), min_size=4, max_size=4),
        "height": st.floats(0.5, 200.0),
        "tp": st.floats(0.0, 1.0),
        "ops": st.lists(st.one_of(op_t, op_w, op_l, op_m, op_c), min_size=1, max_size=10),
    })


def linked_enum(tier):
    """Every template x every link fluid x a rotating choice of solids, with a fixed two-sided history."""
    seed = _seed()
    cases = []
    reps = {"quick": 1, "thorough": 12}[tier]
    for ti, t in enumerate(TEMPLATES):
        for fi in range(len(LINK_FLUIDS)):
            for r in range(reps):
                key = (seed, "linked", t, fi, r)
                cases.append({
                    "template": t, "scale": 0.2 + 5.0 * _u(*key + ("s",)), "q": [_u(*key + ("q", i)) for i in range(4)],
                    "mult": 1 + int(_u(*key + ("m",)) * 271),
                    "mats": [int(_u(*key + ("mat", i)) * len(SOLIDS)) for i in range(3)], "fluid": fi,
                    "tin": [0.0, 0.02, 0.0, 0.05], "t0": [0.4, 0.3, 0.5, 0.2], "height": 1.0 + 50.0 * _u(*key + ("h",)),
                    "ops": [{"op": "copy", "c": fi}, {"op": "bcopy", "c": 0}, {"op": "T", "c": 0, "u": 1.0}, {"op": "T", "c": 1, "u": 0.9}, {"op": "T", "c": 2, "u": 0.0},
                            {"op": "T", "c": 3, "u": 1.0}, {"op": "hot", "c": 0, "d": 0, "u": 0.5}, {"op": "T", "c": 0, "u": 0.1},
                            {"op": "T", "c": 2, "u": 0.8}, {"op": "mat", "c": 0, "m": fi + 3 * ti + r}, {"op": "mat", "c": 2, "m": fi + ti + r + 7},
                            {"op": "lhot", "c": r, "d": 0, "u": 0.6}, {"op": "T", "c": 0, "u": 0.6},
                            {"op": "lcold", "c": r + 1, "d": 1, "u": 0.4}, {"op": "T", "c": 1, "u": 0.2}, {"op": "T", "c": 2, "u": 0.3},
                            {"op": "lhot", "c": r + 1, "d": 1, "u": 0.3}, {"op": "T", "c": 3, "u": 0.5}],
                })
    return cases


# ------------------------------------------------------------------------------------------------
# one composition dict handed to several components (direct assignment of p.numberDensities, the route
# updateNumberDensities' docstring names) and kept by the caller

def shared_execute(case):
    from armi.reactor import components

    out = Out()
    comps, models = [], []
    for i, spec in enumerate(case["comps"]):
        shape = SHAPE_NAMES[spec["shape"] % len(SHAPE_NAMES)]
        name = SOLIDS[spec["mat"] % len(SOLIDS)]
        ref = _make_material(name, None)
        lo, hi, _st = _window(ref, "solid")
        t_in, t0 = _temp(lo, hi, spec["tin"], _zeros(name)), _temp(lo, hi, spec["t0"], _zeros(name))
        sub = {"scale": spec["scale"], "q": spec["q"], "mult": spec["mult"], "nHoles": 7}
        args = dict(name="c%d" % i, material=_make_material(name, None), Tinput=t_in, Thot=t0)
        args.update(_cold_dims(shape, sub))
        comps.append(components.factory(shape.lower(), [], args))
        models.append({"ref": ref, "lo": lo, "hi": hi, "Tin": t_in, "T": t0, "Tset": t0, "mat": name, "shape": shape})
        out.label("shape:" + shape, "mat:" + name)
    out.label("comps:%d" % len(comps))

    def dll(i, t):
        return float(models[i]["ref"].linearExpansionPercent(Tc=t))

    def fac(i, t):
        return 100.0 + dll(i, t)

    # the caller's composition: what the first component was built with, handed to every component as the SAME dict
    composition = dict(comps[0].getNumberDensities())
    if not any(composition.values()):
        composition = {"FE": 0.07, "CR": 0.011, "C": 8e-4}
    kept = dict(composition)
    for c in comps:
        c.p.numberDensities = composition

    def check_all(what):
        out.check(composition == kept, "shared/caller-composition-dict-modified",
                  lambda: "%s: the dict the caller assigned to %d components changed: %s" % (
                      what, len(comps), {n: (kept[n], composition.get(n)) for n in sorted(kept) if composition.get(n) != kept[n]}))
        for i, c in enumerate(comps):
            mi = models[i]
            r = (fac(i, mi["Tset"]) / fac(i, mi["T"])) ** 2
            nd = c.getNumberDensities()
            for n in sorted(kept):
                if not out.check(_close(nd.get(n, 0.0), kept[n] * r), "shared/density-depends-on-another-components-history",
                                 lambda: "%s: c%d (%s %s, composition assigned at %.6f C, now %.6f C) N(%s) = %r, assigned %r * (f(T_assigned)/f(T))^2 = %r" % (
                                     what, i, mi["shape"], mi["mat"], mi["Tset"], mi["T"], n, nd.get(n), kept[n], kept[n] * r)):
                    break

    check_all("after assignment")
    nontrivial = False
    for k, op in enumerate(case["ops"]):
        i = op["c"] % len(comps)
        mi = models[i]
        t_new = _temp(mi["lo"], mi["hi"], op["u"], _zeros(mi["mat"]))
        if abs(t_new - mi["T"]) >= 50.0 and dll(i, t_new) != dll(i, mi["T"]):
            nontrivial = True
        comps[i].setTemperature(t_new)
        what = "step %d: c%d %.6f -> %.6f C" % (k, i, mi["T"], t_new)
        mi["T"] = t_new
        check_all(what)
    out.nontrivial = nontrivial and len(comps) > 1
    return out


def shared_strategy(tier):
    comp = st.fixed_dictionaries({
        "shape": st.integers(0, len(SHAPE_NAMES) - 1), "mat": st.integers(0, len(SOLIDS) - 1), "scale": st.floats(0.05, 20.0),
        "q": st.lists(st.floats(0.0, 1.0), min_size=4, max_size=4), "mult": st.integers(1, 271), "tin": _ufrac(), "t0": _ufrac(),
    })
    return st.fixed_dictionaries({
        "comps": st.lists(comp, min_size=2, max_size=3),
        "ops": st.lists(st.fixed_dictionaries({"c": st.integers(0, 2), "u": _ufrac()}), min_size=1, max_size=6),
    })


PARTS = [
    Part("census", census_execute, enumerate=census_enum, exhaustive=True, procs={"quick": 1, "thorough": 1},
         rule="every material class of armi.materials is classified (fluid / Custom / solid with or without an expansion "
              "model) and compared with the table pinned in the check; every cross-section length of the 12 shapes must be "
              "in THERMAL_EXPANSION_DIMS",
         bound=lambda t: "all classes in armi.materials, 12 two-dimensional shapes"),
    Part("grid", single_execute, enumerate=grid_enum, exhaustive=False, procs={"quick": 6, "thorough": 16},
         rule="every (2-D shape, library material) cell is visited: N draws per expanding-solid cell, fewer per fluid/Custom "
              "cell, one per no-expansion-model cell; a draw = cold dimensions (positive area, inner < outer), Tinput, Thot and "
              "1..6 further temperatures inside the material's stated window (first draw of a cell: window bottom -> middle -> "
              "top -> bottom), optional hot dimension writes, optional block parent, optional blueprint material modifications. "
              "Oracle with f from linearExpansionPercent only: dimension = cold*f, area = cold area*f^2, densities between any "
              "two states scale by (f1/f2)^2 (also p.pinNDens and p.detailedNDens, each independently present or absent, "
              "float32 tolerance 1e-6 for pinNDens), A*sum(N_i A_i) constant, getDimension/getArea(Tc=T) preview equals the state "
              "reached, hot write reads back, path end state = single jump, fluids/Custom keep every dimension. "
              "Non-trivial: a step with |dT| >= 50 K whose ends have different dLL",
         bound=lambda t: "12 shapes x (24 expanding solids x %d + 13 fluids/Custom x %d + 15 no-model solids x 1) draws" % (_GRID_N[t], _GRID_NF[t])),
    Part("paths", single_execute, strategy=paths_strategy, budget={"quick": 2400, "thorough": 120000},
         procs={"quick": 6, "thorough": 16},
         rule="Hypothesis draws (shape, material, dimension fractions, Tinput, Thot, path of 1..6 setTemperature / hot-write "
              "operations, modifications, parent) with window boundaries over-weighted; same oracle as the grid; shrinkable"),
    Part("linked_grid", linked_execute, enumerate=linked_enum, exhaustive=False, procs={"quick": 1, "thorough": 8},
         rule="every link template (fuel/bond, fuel/gap/clad, fuel/gap/liner/clad with a solid-solid link, annular fuel, "
              "duct/intercoolant, duct/gap/duct, plate/channel, liner chain, duct with 'modArea: skids.add', plate with "
              "'modArea: rods.sub' whose area and getArea(Tc=T) must be own +/- other, both at T) x every link fluid, fixed history heating and "
              "cooling every component",
         bound=lambda t: "10 templates x 9 fluids x %d material draws" % {"quick": 1, "thorough": 12}[t]),
    Part("shared_composition", shared_execute, strategy=shared_strategy, budget={"quick": 500, "thorough": 20000},
         procs={"quick": 1, "thorough": 8},
         rule="Hypothesis: 2-3 solid components of any shape/material are given the SAME composition dict by direct assignment "
              "of p.numberDensities (the caller keeps the dict), then a history of up to 6 setTemperature calls on any of them; after "
              "every step each component's densities equal the assigned ones times (f(T_assigned)/f(T))^2 of its own material "
              "and temperature only, and the caller's dict is unchanged. Non-trivial: >= 2 components and a >= 50 K step with "
              "different dLL"),
    Part("linked", linked_execute, strategy=linked_strategy, budget={"quick": 1500, "thorough": 60000},
         procs={"quick": 3, "thorough": 16},
         rule="Hypothesis: 2-4 components built like BlockBlueprint.construct (link strings, resolveLinkedDims, HexBlock), each "
              "with its own material, Tinput and Thot; history of up to 8 setTemperature / setDimension operations on any "
              "component, including hot and cold writes THROUGH a link (setDimension(linked dim, v, retainLink=True, cold=...): "
              "link and target both read back v, the target's cold value is v/f(T_target), the link stays a link), material "
              "exchanges (setProperties + applyMaterialMassFracsToNumberDensities with another library solid covering the "
              "temperatures), copy.copy of a component holding links (the copy's links must stay the original siblings and follow "
              "them) and copy.deepcopy of the block (links must be the copied siblings, the copy frozen); after every step every linked dimension equals the target's current (and cold) dimension and the "
              "harness value cold*f(T_target), every own dimension of a solid equals cold*f, fluids keep theirs, area follows "
              "the current dimensions, cached volume = area*height, unlinked solids conserve A*sum(N_i A_i). Non-trivial: a "
              ">= 50 K change with different dLL of a solid that another component is linked to"),
]
