"""C02 - mass, volume and number densities are accounted consistently at every level.

Parts
-----
blocks      directly constructed blocks (all 2-D shapes, three 3-D shapes, ~40 materials, multiplicities, hot/cold
            temperatures, optional derived coolant inside a duct), one or two of them inside a generic ``Composite``;
            additivity from component primitives + composition-edit programs at component/block/group level.
reactors    whole reactors from the shared blueprint generator (hex third/full, Cartesian full/quarter, edge assemblies
            -> symmetry factors 1, 2, 3, 4); additivity at component/block/assembly/core level + edit programs at all
            four levels.
expansion   a component whose material's thermal expansion depends on its composition: ``updateNumberDensities``
            must conserve moles with respect to the pre-edit volume (documented), literal read-back otherwise.
conversions ``densityTools`` conversions are mutual inverses on generated compositions.

The oracle never uses a composite-level getter of armi to predict another one: component primitives (N_c[nuc], V_c) are
read once per state, the symmetry factor is read from ``Block.getSymmetryFactor`` (and cross-checked against the
documented rule), and every block/assembly/core quantity is recomputed from those with ``math.fsum``.
"""
import math

from hypothesis import strategies as st

from vp.gen import reactor as rg
from vp.model import hexmodel as hm
from vp.runner import Out, Part

PROPERTY = "C02"
LEVEL = "exploration"
ASSUMPTIONS = [
    "component primitives are trusted: Component.getNumberDensities() (the stored dict), Component.getVolume(), "
    "Block.getSymmetryFactor() (cross-checked against the documented centre/edge rule), the nuclide directory "
    "(weights, element membership) and the unit constants of armi.utils.units",
    "re-associated sums are compared with relative tolerance 1e-10 of the largest operand (sum of absolute terms for "
    "sums with cancellation)",
    "Component.getMass is density x volume / parent symmetry factor (documented mechanism) while Component.getVolume is "
    "the uncut volume; component-level getMasses/getNumberOfAtoms are therefore only compared when the factor is 1",
    "Assembly.getVolume = first block's area x height is asserted only when all block areas agree to 1e-12 (always true "
    "for the generated reactors)",
    "Component.density() falls back to the material density for an empty composition (documented); that case is skipped",
    "setMassFracs is only issued with fractions summing to < 1 and at least one unlisted nuclide of non-zero mass",
    "mass setters (setMass/addMass/removeMass/setMasses) on a component of a symmetry-cut block are excluded from the "
    "generated search (known finding edit/component-mass-setter-ignores-symmetry-factor)",
]

# generated search avoids these shapes (the defect replay files still carry them)
SIG_COMP_MASS_SYM = "edit/component-mass-setter-ignores-symmetry-factor"
SIG_SCALE_RAISES = "edit/changeNDensByFactor-raises-above-component"
SIG_CART_FULL = "symmetry/cartesian-full-core-cut-through-center"
# SIG_SCALE_RAISES and SIG_CART_FULL were repaired in /repo (fix: commits d096cbf, 971daf0): searched again; SIG_COMP_MASS_SYM is a known finding
SIG_FLUID_DENSITY = "density/zeroed-fluid-component-raises"
_ALLOW_KNOWN = [False]  # set per case from case["known"] (defect replay files only)
EXCLUDE_KNOWN = {SIG_FLUID_DENSITY: False, SIG_COMP_MASS_SYM: True, SIG_SCALE_RAISES: False, SIG_CART_FULL: False}

REL = 1e-10


def _close(a, b, scale=0.0):
    a = float(a)
    b = float(b)
    diff = abs(a - b)
    # (absolute floor: quantities below 1e-280 are sub-normal trace values with no relative precision left)
    return diff <= REL * max(abs(a), abs(b), abs(scale)) or diff <= 1e-280


# ---------------------------------------------------------------------------------------------------------------
# nuclide directory helpers (armi imported lazily)

_W = {}
_ELEM = {}


def _weight(n):
    w = _W.get(n)
    if w is None:
        from armi.nucDirectory import nuclideBases

        w = _W[n] = float(nuclideBases.byName[n].weight)
    return w


def _elem(n):
    """(element symbol or None, is natural/elemental nuclide)."""
    e = _ELEM.get(n)
    if e is None:
        from armi.nucDirectory import nuclideBases

        nb = nuclideBases.byName[n]
        el = getattr(nb, "element", None)
        e = _ELEM[n] = (el.symbol if el is not None else None, isinstance(nb, nuclideBases.NaturalNuclideBase))
    return e


_BYZ = {}


def _z(n):
    from armi.nucDirectory import nuclideBases

    return getattr(nuclideBases.byName[n], "z", None)


def _names_of_z(z):
    """Every nuclide of the directory with atomic number z (elemental nuclide included), independent of any armi lookup."""
    if not _BYZ:
        from armi.nucDirectory import nuclideBases

        for nb in nuclideBases.instances:
            zz = getattr(nb, "z", None)
            if zz is not None and 0 < zz < 119:
                _BYZ.setdefault(zz, set()).add(nb.name)
    return _BYZ.get(z, set())


def _consts():
    from armi.utils import units

    return units.MOLES_PER_CC_TO_ATOMS_PER_BARN_CM, units.CM2_PER_BARN


def _select(names, spec):
    """Names of one component selected by a nuclide specifier, following the docstring of
    ``_getNuclidesFromSpecifier``: a name held by the component selects itself; otherwise an element symbol selects
    the isotopes of that element; unknown names select nothing; a list selects the union; None selects all."""
    if spec is None:
        return set(names)
    if isinstance(spec, str):
        if spec in names:
            return {spec}
        return {n for n in names if _elem(n)[0] == spec and not _elem(n)[1]}
    sel = set()
    for s in spec:
        sel |= _select(names, s)
    return sel


def _ambiguous(names, spec):
    """True when a component holds both the elemental nuclide and isotopes of a selected element (the docstring
    leaves that case open: 'get Zr isotopes ... if they exist, or elemental ZR if that exists')."""
    items = [spec] if isinstance(spec, str) else (spec or [])
    for s in items:
        if s in names and _elem(s)[1] and any(_elem(n)[0] == s and not _elem(n)[1] for n in names):
            return True
    return False


# ---------------------------------------------------------------------------------------------------------------
# the harness model: a tree over armi objects whose leaves are components


class Node:
    __slots__ = ("level", "obj", "leaves", "children", "parent", "sf", "area_ok")

    def __init__(self, level, obj, parent=None):
        self.level = level
        self.obj = obj
        self.leaves = []  # leaf ids below (for a component: itself)
        self.children = []
        self.parent = parent
        self.sf = 1.0
        self.area_ok = True


class Tree:
    def __init__(self):
        self.nodes = []
        self.leaf_nodes = []  # leaf id -> component Node
        self.by_level = {}
        self.dim0 = {}  # as-built cold dimensions touched by geometry steps

    def add(self, level, obj, parent=None):
        n = Node(level, obj, parent)
        self.nodes.append(n)
        self.by_level.setdefault(level, []).append(n)
        if parent is not None:
            parent.children.append(n)
        return n

    def add_leaf(self, comp, parent, sf):
        n = self.add("component", comp, parent)
        n.sf = sf
        lid = len(self.leaf_nodes)
        self.leaf_nodes.append(n)
        p = n
        while p is not None:
            p.leaves.append(lid)
            p = p.parent
        return n


def _tree_of_block(tree, block, parent):
    bn = tree.add("block", block, parent)
    bn.sf = float(block.getSymmetryFactor())
    for c in block:
        tree.add_leaf(c, bn, bn.sf)
    return bn


def _snapshot(tree):
    """[(N dict, V)] per leaf: the primitives."""
    return [(dict(n.obj.getNumberDensities()), float(n.obj.getVolume())) for n in tree.leaf_nodes]


class Agg:
    """Quantities of one node computed from the primitives."""

    __slots__ = ("vol", "atoms", "aabs", "names")

    def __init__(self, tree, node, snap):
        terms = {}
        vols = []
        for lid in node.leaves:
            N, V = snap[lid]
            w = V / tree.leaf_nodes[lid].sf
            vols.append(w)
            for nuc, n in N.items():
                terms.setdefault(nuc, []).append(n * w)
        self.vol = math.fsum(vols)  # model volume (cut by symmetry)
        self.atoms = {k: math.fsum(v) for k, v in terms.items()}  # [atoms/bn-cm * cm3]
        self.aabs = {k: math.fsum(abs(x) for x in v) for k, v in terms.items()}
        self.names = set(terms)

    def ndens(self, nuc):
        return self.atoms.get(nuc, 0.0) / self.vol if self.vol else 0.0

    def mass(self, nuc):
        return self.atoms.get(nuc, 0.0) * _weight(nuc) / _consts()[0]

    def mass_abs(self, nuc):
        return self.aabs.get(nuc, 0.0) * _weight(nuc) / _consts()[0]

    def total_mass(self):
        return math.fsum(self.mass(n) for n in self.names)

    def total_mass_abs(self):
        return math.fsum(self.mass_abs(n) for n in self.names)


def _mass_of_spec(tree, node, snap, spec):
    """(mass, sum of |terms|, ambiguous) of a nuclide specifier: every component resolves the specifier itself."""
    C = _consts()[0]
    terms = []
    amb = False
    for lid in node.leaves:
        N, V = snap[lid]
        w = V / tree.leaf_nodes[lid].sf
        amb = amb or _ambiguous(N, spec)
        for n in _select(N, spec):
            terms.append(N[n] * w * _weight(n) / C)
    return math.fsum(terms), math.fsum(abs(t) for t in terms), amb


def _lvl(node):
    return "component" if node.level == "component" else "composite"


def _expected_volume(tree, node, snap, agg):
    """What getVolume() documents: uncut volume for a component, cut volume from the block upwards."""
    if node.level == "component":
        return snap[node.leaves[0]][1]
    return agg.vol


def check_node(out, tree, node, snap, full=False, queries=(), sample=(), density=True):
    """Additivity: armi getters of ``node`` against quantities recomputed from the component primitives."""
    C, BARN = _consts()
    obj = node.obj
    nviol = len(out.violations)
    agg = Agg(tree, node, snap)
    where = "%s %r" % (node.level, obj)
    vol_ok = node.area_ok
    expv = _expected_volume(tree, node, snap, agg)
    if vol_ok:
        v = obj.getVolume()
        out.check(_close(v, expv, math.fsum(abs(snap[l][1]) for l in node.leaves) / node.sf if node.level != "component" else 0.0),
                  "additivity/volume-%s" % node.level,
                  lambda: "%s: getVolume()=%r, children give %r (symmetry factor %r)" % (where, v, expv, node.sf))
    # number densities: volume-weighted mean of the children
    nd = obj.getNumberDensities()
    out.check(set(nd) == agg.names, "additivity/nuclide-set-%s" % _lvl(node),
              lambda: "%s: getNumberDensities keys differ: only armi %s, only children %s" % (
                  where, sorted(set(nd) - agg.names)[:6], sorted(agg.names - set(nd))[:6]))
    if agg.vol:
        bad = [(n, nd[n], agg.ndens(n)) for n in sorted(agg.names & set(nd))
               if not _close(nd[n], agg.ndens(n), agg.aabs[n] / abs(agg.vol))]
        out.check(not bad, "additivity/number-density-%s" % _lvl(node),
                  lambda: "%s: getNumberDensities()[%s]=%r, volume-weighted mean of children %r (%d nuclides differ)" % (
                      where, bad[0][0], bad[0][1], bad[0][2], len(bad)))
    # total mass
    m = obj.getMass()
    em = agg.total_mass()
    out.check(_close(m, em, agg.total_mass_abs()), "additivity/mass-total-%s" % _lvl(node),
              lambda: "%s: getMass()=%r, sum over components of N*V*A/sym %r" % (where, m, em))
    if not full or len(out.violations) > nviol:
        return agg  # (derived quantities of an object whose basic accounting is already off add no information)
    m0 = obj.getMass(None)
    out.check(_close(m0, em, agg.total_mass_abs()), "additivity/mass-total-%s" % _lvl(node),
              lambda: "%s: getMass(None)=%r expected %r" % (where, m0, em))
    for kind, spec in queries:
        exp, eabs, amb = _mass_of_spec(tree, node, snap, spec)
        if amb:
            out.label("skip:ambiguous-element-selection")
            continue
        got = obj.getMass(list(spec) if isinstance(spec, list) else spec)
        out.check(_close(got, exp, eabs), "additivity/mass-of-%s-%s" % (kind, _lvl(node)),
                  lambda: "%s: getMass(%r)=%r, children give %r" % (where, spec, got, exp))
    names = sorted(agg.names)
    picks = [names[i % len(names)] for i in sample] if names else []
    picks.append("XE135" if "XE135" not in agg.names else "KR85")  # a nuclide nobody holds
    if agg.vol:
        for n in picks:
            g = obj.getNumberDensity(n)
            out.check(_close(g, agg.ndens(n), agg.aabs.get(n, 0.0) / abs(agg.vol)), "additivity/number-density-%s" % _lvl(node),
                      lambda: "%s: getNumberDensity(%s)=%r expected %r" % (where, n, g, agg.ndens(n)))
        gl = list(obj.getNuclideNumberDensities(list(picks)))
        out.check(len(gl) == len(picks) and all(_close(g, agg.ndens(n), agg.aabs.get(n, 0.0) / abs(agg.vol)) for g, n in zip(gl, picks)),
                  "additivity/number-density-%s" % _lvl(node),
                  lambda: "%s: getNuclideNumberDensities(%s)=%r" % (where, picks, gl))
    rho_e = math.fsum(agg.ndens(n) * _weight(n) / C for n in names) if agg.vol else 0.0
    comp_cut = node.level == "component" and node.sf != 1.0
    if vol_ok and agg.vol:
        for n in picks:
            g = obj.getNumberOfAtoms(n)
            e = agg.ndens(n) * expv / BARN
            out.check(_close(g, e, agg.aabs.get(n, 0.0) / BARN * (node.sf if node.level == "component" else 1.0)),
                      "additivity/number-of-atoms-%s" % _lvl(node),
                      lambda: "%s: getNumberOfAtoms(%s)=%r, density*volume %r" % (where, n, g, e))
        if not comp_cut:
            ms = obj.getMasses()
            bad = [(n, ms.get(n), agg.mass(n)) for n in names if n not in ms or not _close(ms[n], agg.mass(n), agg.mass_abs(n))]
            out.check(not bad and set(ms) == agg.names, "additivity/getMasses-%s" % _lvl(node),
                      lambda: "%s: getMasses()[%s]=%r expected %r" % ((where,) + (bad[0] if bad else ("<keys>", sorted(ms)[:5], names[:5]))))
        # mass = density x volume
        if density and node.level == "component" and rho_e == 0.0 and not obj.containsSolidMaterial() and not obj.containsVoidMaterial():
            # repaired finding (fix: 44ea46b): the material fallback of Component.density() read ``density.__wrapped__``, which
            # fluids do not have.  Only "does not raise" is asserted; the fallback value stays outside the property as for solids
            if EXCLUDE_KNOWN.get(SIG_FLUID_DENSITY) and not _ALLOW_KNOWN[0]:
                out.label("excluded:" + SIG_FLUID_DENSITY)
            else:
                try:
                    obj.density()
                except AttributeError as exc:
                    out.fail(SIG_FLUID_DENSITY, "%s: all number densities are zero, density() raised AttributeError: %s" % (where, exc))
        if density and not (node.level == "component" and rho_e == 0.0):
            rho = obj.density()
            rabs = math.fsum(agg.aabs[n] * _weight(n) / C for n in names) / abs(agg.vol)
            out.check(_close(rho, rho_e, rabs), "additivity/density-%s" % _lvl(node),
                      lambda: "%s: density()=%r, sum N*A from children %r" % (where, rho, rho_e))
            mv = rho * obj.getVolume() / (node.sf if node.level == "component" else 1.0)
            out.check(_close(mv, m, agg.total_mass_abs()), "additivity/mass-is-density-times-volume-%s" % _lvl(node),
                      lambda: "%s: density()*getVolume()%s=%r but getMass()=%r" % (
                          where, "/symmetry" if node.level == "component" else "", mv, m))
    # mass fractions
    mf = obj.getMassFracs()
    if em > 0 and all(agg.atoms[n] >= 0 for n in names):
        s = math.fsum(mf.values())
        out.check(abs(s - 1.0) <= 1e-9, "massfrac/sum-not-one", lambda: "%s: sum(getMassFracs())=%r" % (where, s))
        bad = [(n, mf.get(n), agg.mass(n) / em) for n in names if n not in mf or not _close(mf[n], agg.mass(n) / em, agg.mass_abs(n) / em)]
        out.check(not bad, "massfrac/value-%s" % _lvl(node),
                  lambda: "%s: getMassFracs()[%s]=%r, mass ratio %r" % ((where,) + bad[0]))
        for kind, spec in queries:
            # getMassFrac resolves the specifier once, against the nuclides of this object
            if _ambiguous(agg.names, spec):
                continue
            e = math.fsum(agg.mass(n) for n in _select(agg.names, spec)) / em
            g = obj.getMassFrac(list(spec) if isinstance(spec, list) else spec)
            out.check(_close(g, e, 1e-3), "massfrac/selection-%s" % _lvl(node),
                      lambda: "%s: getMassFrac(%r)=%r, masses give %r" % (where, spec, g, e))
    return agg


def _queries(tree, root, snap, qspecs):
    """Turn index-based selection records into (kind, specifier) pairs valid for this object."""
    names = sorted(Agg(tree, root, snap).names)
    if not names:
        return []
    out = []
    for q in qspecs:
        k = q["k"]
        pick = [names[i % len(names)] for i in q["i"]] or [names[0]]
        if k == "nuc":
            out.append(("nuclide", pick[0]))
        elif k == "elem":
            e = _elem(pick[0])[0]
            if e is not None:
                out.append(("element", e))
        else:
            items = []
            for j, n in enumerate(pick):
                e = _elem(n)[0]
                items.append(e if (q["e"] >> j) & 1 and e is not None else n)
            if q["e"] & 64:
                items.append("U234" if "U234" not in names else "PU236")  # a name nobody here holds
            if q["e"] & 32 and _elem(pick[0])[0] is not None:
                items.append(_elem(pick[0])[0])  # the element of a listed nuclide as well: selections overlap
            if q["e"] & 16:
                items.append(items[0])  # the same name twice
            out.append(("list", items))
    return out


# ---------------------------------------------------------------------------------------------------------------
# composition-edit programs

MASS_OPS = ("addMass", "removeMass", "setMass", "setMasses", "addMasses")
EXTRA_NUCS = ["PU239", "XE135", "H1", "B10", "U234", "AM241", "CS137", "O16", "SM149"]


def _val(v):
    """log-uniform density in [1e-9, 0.1] from a unit float."""
    return 10.0 ** (-9.0 + 8.0 * v)


def _pick_nuc(present, absent, rec):
    """rec = [index, wantAbsent]."""
    if rec[1] and absent:
        return absent[rec[0] % len(absent)], False
    if present:
        return present[rec[0] % len(present)], True
    return absent[rec[0] % len(absent)], False


STRUCT_OPS = ("adjustDensity", "setHeight", "setTemp", "setDim", "setPitch", "setMult")
_OUTER_DIMS = ("od", "op", "widthOuter", "lengthOuter", "base")


def check_block_areas(out, tree, nodes, snap):
    """Block.getArea() (hot; the cold flavour shares its cache key and is never asked) x height is the block volume."""
    for bn in nodes:
        try:
            area = bn.obj.getArea()
        except NotImplementedError:
            continue  # (a 3-D component has no area)
        agg = Agg(tree, bn, snap)
        h = bn.obj.getHeight()
        ah = area * h
        out.check(_close(ah, agg.vol, math.fsum(abs(snap[l][1]) for l in bn.leaves) / bn.sf), "additivity/area-block",
                  lambda: "%r (symmetry factor %r): getArea()*height=%r, components give volume %r" % (bn.obj, bn.sf, ah, agg.vol))
        for cn in bn.children:
            if not cn.obj.is3D:
                ca, cv = cn.obj.getArea() * h, snap[cn.leaves[0]][1]
                out.check(_close(ca, cv, 1e-6 * abs(agg.vol)), "additivity/area-component",
                          lambda: "%r: getArea()*height=%r but getVolume()=%r" % (cn.obj, ca, cv))


def _drawn_names(present, op):
    """Nuclide list in the order the case dictates (never sorted by the harness unless the case asks for descending)."""
    names = []
    if op.get("all"):
        k = op["order"][0] % len(present)
        names = present[k:] + present[:k]
    else:
        for i in op["order"]:
            n = present[i % len(present)]
            if n not in names:
                names.append(n)
    if op.get("desc"):
        names = sorted(names, reverse=True)
    return names


def _structure_step(out, tree, op, step, snap, recheck):
    """Steps that are not plain composition setters: block-level density scaling, height change with mass conservation,
    and geometry changes (temperature, dimension, pitch).  Volumes/areas are read at every level first, then the step is
    applied, then the documented clauses and the whole additivity battery are asserted on the new state."""
    from armi.utils import units

    kind = op["op"]
    blocks_ = tree.by_level["block"]
    for n in tree.nodes:  # observation: whatever a reader caches is cached now
        if n.level != "component" and n.area_ok:
            n.obj.getVolume()
    for bn in blocks_:
        try:
            bn.obj.getArea()
        except NotImplementedError:
            pass
    if kind in ("setTemp", "setDim"):
        comps = tree.by_level["component"]
        node = comps[op["t"] % len(comps)]
        pc = node.parent.obj._pitchDefiningComponent[0]
        sibs = node.parent.children
        if node.parent.parent is not None and node.parent.parent.level == "assembly":
            # inside an assembly only setPitch (all blocks at once) may change the outer size: Assembly.getVolume documents
            # that every block of an assembly has the same area
            if node.obj is pc and len(sibs) > 1:
                node = sibs[(sibs.index(node) + 1) % len(sibs)]
        elif op.get("outer"):  # a lone block: aim at the outermost component (the one that defines the block's size)
            node = next((n for n in sibs if n.obj is pc), node)
        bn = node.parent
    else:
        bn = blocks_[op["t"] % len(blocks_)]
        node = bn
    b = bn.obj
    where = "step %d %s on %r" % (step, kind, node.obj)
    pre = Agg(tree, bn, snap)
    present = sorted(pre.names)
    affected = {id(bn)}
    n_keep = True  # number densities of the other components of the block stay
    if kind == "adjustDensity":
        if not present or pre.vol <= 0:
            return snap
        names = _drawn_names(present, op)
        if op.get("extra"):
            names.insert(len(names) // 2, "XE135" if "XE135" not in pre.names else "KR85")
        frac = op["frac"]
        out.label("adjustDensity:unsorted" if names != sorted(names) else "adjustDensity:sorted", "op:adjustDensity@block")
        out.nontrivial = out.nontrivial or (names != sorted(names) and len(names) >= 2)
        ret = b.adjustDensity(frac, list(names), returnMass=op["ret"])
        post_snap = _snapshot(tree)
        post = Agg(tree, bn, post_snap)
        floor = 4.0 * units.TRACE_NUMBER_DENSITY * pre.vol / REL  # ("add a little so components remember")
        emass = []
        for n in sorted(pre.names | post.names):
            a0, a1 = pre.atoms.get(n, 0.0), post.atoms.get(n, 0.0)
            if n in names and a0 != 0.0:
                emass.append((frac - 1.0) * pre.mass(n))
                out.check(_close(a1, frac * a0, max(pre.aabs[n], floor)), "edit/adjustDensity-read-back",
                          lambda: "%s: adjustDensity(%r, %s): %s N %r -> %r, expected %r" % (where, frac, names, n, a0 / pre.vol, a1 / post.vol, frac * a0 / pre.vol))
            else:
                out.check(_close(a1, a0, 0.0), "edit/adjustDensity-other-nuclide-changed",
                          lambda: "%s: adjustDensity(%r, %s): %s N %r -> %r" % (where, frac, names, n, a0 / pre.vol, a1 / post.vol))
        if op["ret"]:
            e = math.fsum(emass)
            out.check(_close(ret, e, max(math.fsum(abs(x) for x in emass), floor * 300.0 / _consts()[0])), "edit/adjustDensity-returned-mass",
                      lambda: "%s: adjustDensity(%r, %s, returnMass=True) returned %r g, masses changed by %r g" % (where, frac, names, ret, e))
        else:
            out.check(ret == 0.0, "edit/adjustDensity-returned-mass", lambda: "%s: returnMass=False returned %r" % (where, ret))
        n_keep = False
        vol_same = True
    elif kind == "setHeight":
        if bn.parent is not None and bn.parent.level == "group":
            out.label("skip:setHeight-needs-assembly-or-no-parent")
            return snap
        if not present or pre.vol <= 0:
            return snap
        if any(ch.obj.is3D for ch in bn.children):
            out.label("skip:setHeight-block-with-3D-components")  # (their volume is not area x block height)
            return snap
        names = _drawn_names(present, op)
        h0 = b.getHeight()
        h1 = round(h0 * op["hf"], 4)
        out.label("op:setHeight@block", "setHeight:all-nuclides" if op.get("all") else "setHeight:some-nuclides")
        out.nontrivial = out.nontrivial or names != sorted(names)
        b.setHeight(h1, conserveMass=True, adjustList=list(names))
        post_snap = _snapshot(tree)
        post = Agg(tree, bn, post_snap)
        prismatic = all(_close(post_snap[l][1] * h0, snap[l][1] * h1) for l in bn.leaves)
        for l in bn.leaves:
            N0, N1 = snap[l][0], post_snap[l][0]
            bad = [n for n in sorted(set(N0) | set(N1)) if n not in names and N0.get(n) != N1.get(n)]
            out.check(not bad, "edit/setHeight-unlisted-nuclide-changed",
                      lambda: "%s: %r: %s is not in adjustList %s, N %r -> %r" % (where, tree.leaf_nodes[l].obj, bad[0], names, N0.get(bad[0]), N1.get(bad[0])))
        if prismatic and h1 != h0:
            floor = 4.0 * units.TRACE_NUMBER_DENSITY * max(pre.vol, post.vol) / REL
            for n in names:
                a0, a1 = pre.atoms.get(n, 0.0), post.atoms.get(n, 0.0)
                out.check(_close(a1, a0, max(pre.aabs.get(n, 0.0), floor)), "edit/setHeight-mass-not-conserved",
                          lambda: "%s: height %r -> %r conserving %s: %s held %r g, now %r g" % (where, h0, h1, names, n, pre.mass(n), post.mass(n)))
            if set(names) >= {n for n in present if pre.atoms[n] != 0.0}:
                m0, m1 = pre.total_mass(), b.getMass()
                # (every listed nuclide gets TRACE_NUMBER_DENSITY added: an all-trace inventory has no relative precision)
                out.check(_close(m1, m0, max(pre.total_mass_abs(), floor * 500.0 * len(names))), "edit/setHeight-mass-not-conserved",
                          lambda: "%s: height %r -> %r conserving every nuclide: block mass %r -> %r g" % (where, h0, h1, m0, m1))
        n_keep = False
        vol_same = False
    elif kind == "setTemp":
        c = node.obj
        if type(c.material).__name__ not in _HOT_OK:
            out.label("skip:setTemp-material-without-expansion-data")
            return snap
        out.label("op:setTemp@component", "geom:outermost" if c is b._pitchDefiningComponent[0] else "geom:inner")
        try:
            c.setTemperature(op["T"])
        except RuntimeError as exc:
            if "Linear expansion percent may not be implemented" not in str(exc):
                raise
            out.label("rejected:setTemp")
        post_snap = _snapshot(tree)
        vol_same = False
    elif kind == "setDim":
        c = node.obj
        key = next((k for k in _OUTER_DIMS if k in c.DIMENSION_NAMES), None)
        if key is None or c.dimensionIsLinked(key) or not c.getDimension(key, cold=True):
            out.label("skip:setDim-no-free-outer-dimension")
            return snap
        outer = c is b._pitchDefiningComponent[0]
        f = 1.0 + 0.03 * op["f"] if outer else 0.97 + 0.06 * op["f"]
        out.label("op:setDim@component", "geom:outermost" if outer else "geom:inner")
        # (always relative to the as-built size, so that repeated steps cannot close a duct or over-fill the cell)
        base = tree.dim0.setdefault((id(c), key), c.getDimension(key, cold=True))
        c.setDimension(key, round(base * f, 6))
        post_snap = _snapshot(tree)
        vol_same = False
    elif kind == "setMult":
        # change the multiplicity of a component others are linked to through ``mult`` (clad/gap/wire: "fuel.mult")
        sibs = bn.children
        if bn.parent is not None and bn.parent.level == "assembly" and not any(type(n.obj).__name__ == "DerivedShape" for n in sibs):
            out.label("skip:setMult-would-change-block-size")  # (no derived coolant to take up the difference: see setPitch)
            return snap
        targets_ = [n for n in sibs if "mult" in n.obj.DIMENSION_NAMES and not n.obj.dimensionIsLinked("mult")
                    and any(o is not n and "mult" in o.obj.DIMENSION_NAMES and o.obj.dimensionIsLinked("mult")
                            and o.obj.p.mult.getLinkedComponent() is n.obj for o in sibs)]
        linked = bool(targets_)
        if not targets_:
            targets_ = [n for n in sibs if "mult" in n.obj.DIMENSION_NAMES and not n.obj.dimensionIsLinked("mult")
                        and n.obj is not b._pitchDefiningComponent[0]]
        if not targets_:
            out.label("skip:setMult-no-target")
            return snap
        node = targets_[op["t"] % len(targets_)]
        c = node.obj
        m0 = tree.dim0.setdefault((id(c), "mult"), float(c.getDimension("mult")))
        m1 = float(max(1, int(round(m0 * (0.5 + 0.6 * op["f"])))))
        out.label("op:setMult@component", "setMult:link-target" if linked else "setMult:unlinked")
        c.setDimension("mult", m1)
        post_snap = _snapshot(tree)
        vol_same = False
    else:  # setPitch: every block of the assembly (they share one lattice cell); a lone block otherwise
        if not hasattr(b, "getDuctOP") or b._pitchDefiningComponent[0] is None:
            out.label("skip:setPitch-not-supported-here")
            return snap
        targets = bn.parent.children if bn.parent is not None and bn.parent.level == "assembly" else [bn]
        pc = b._pitchDefiningComponent[0]
        val = round(tree.dim0.setdefault((id(pc), "op"), pc.getDimension("op", cold=True)) * (1.0 + 0.03 * op["f"]), 6)
        out.label("op:setPitch@block", "geom:outermost")
        for t in targets:
            t.obj.setPitch(val)
            affected.add(id(t))
        post_snap = _snapshot(tree)
        vol_same = False
    out.nontrivial = out.nontrivial or kind in ("setTemp", "setDim", "setPitch", "setMult")
    # -- nothing outside the block(s) concerned changed; inside, the other components keep their composition
    for l, leaf in enumerate(tree.leaf_nodes):
        if id(leaf.parent) not in affected:
            out.check(post_snap[l] == snap[l], "edit/outside-target-changed",
                      lambda: "%s: (N,V) of %r in another block changed" % (where, leaf.obj))
        elif n_keep and leaf is not node:
            out.check(post_snap[l][0] == snap[l][0], "edit/outside-target-changed",
                      lambda: "%s: composition of sibling %r changed" % (where, leaf.obj))
        if vol_same:
            out.check(post_snap[l][1] == snap[l][1], "edit/volume-changed-by-composition-edit",
                      lambda: "%s: volume of %r changed" % (where, leaf.obj))
    recheck(post_snap)
    return post_snap


def _held_check(out, held, where):
    """Dicts the harness handed to armi setters stay the caller's: later edits must not write into them."""
    for obj_, copy_ in held:
        if not out.check(obj_ == copy_, "edit/caller-dict-modified",
                         lambda: "%s: the dict passed earlier to setNumberDensities/updateNumberDensities was %r, is now %r" % (
                             where, dict(sorted(copy_.items())), dict(sorted(obj_.items())))):
            copy_.clear()
            copy_.update(obj_)


def run_program(out, tree, ops, queries=(), top=None, stats=None, handlers=None, recheck=None):
    """Apply each edit to armi, re-read the primitives, check read-back / untouched / additivity after every step."""
    C, _BARN = _consts()
    snap = _snapshot(tree)
    n_rej = 0
    n_done = 0
    held = []  # [(dict object given to armi, private copy)]
    work = list(ops)
    step = -1
    while work:
        op = work.pop(0)
        step += 1
        kind = op["op"]
        if handlers and kind in handlers:
            snap = handlers[kind](op, step, snap)
            _held_check(out, held, "step %d %s" % (step, kind))
            continue
        if kind == "editHeightEdit":
            # deliberate history: edit at assembly/core level, change the height of one block below it (the volume fractions
            # of the level change), then edit a nuclide that only some of the children hold at the same level again
            lv = [l for l in ("assembly", "core") if l in tree.by_level]
            if not lv:
                continue
            top_ = tree.by_level[lv[op["level"] % len(lv)]]
            nd = top_[op["t"] % len(top_)]
            below = [bn_ for bn_ in tree.by_level["block"] if set(bn_.leaves) <= set(nd.leaves)]
            blk = below[op["b"] % len(below)]
            ni = tree.nodes.index(nd)
            work[0:0] = [
                {"op": "setND", "level": 0, "t": 0, "_node": ni, "nuc": op["n1"], "v": op["v1"], "zero": False, "partial": True},
                {"op": "setHeight", "t": tree.by_level["block"].index(blk), "order": [op["n1"][0], op["n2"][0]], "desc": False, "all": True,
                 "hf": op["hf"]},
                {"op": "setND", "level": 0, "t": 0, "_node": ni, "nuc": op["n2"], "v": op["v2"], "zero": False, "partial": True},
            ]
            out.label("history:edit-height-edit@%s" % nd.level)
            step -= 1
            continue
        if kind in STRUCT_OPS:
            if recheck is None:
                def recheck(sn):
                    for n_ in tree.nodes:
                        check_node(out, tree, n_, sn)
                    check_block_areas(out, tree, tree.by_level["block"], sn)
            snap = _structure_step(out, tree, op, step, snap, recheck)
            _held_check(out, held, "step %d %s" % (step, kind))
            n_done += 1
            continue
        levels = [l for l in ("component", "block", "group", "assembly", "core") if l in tree.by_level]
        if kind == "shareNDs":
            # ---- one dict object handed to several components, then a single-component edit on one of them
            comps = tree.by_level["component"]
            chosen = []
            for t in op["targets"]:
                n = comps[t % len(comps)]
                if n not in chosen:
                    chosen.append(n)
            if len(chosen) < 2 and len(comps) >= 2:
                chosen.append(comps[(comps.index(chosen[0]) + 1) % len(comps)])
            names0 = sorted(set().union(*[set(snap[n.leaves[0]][0]) for n in chosen]))
            elems0 = {_elem(n)[0] for n in names0}
            absent0 = [n for n in EXTRA_NUCS if n not in names0 and _elem(n)[0] not in elems0]
            req = {}
            for rec in op["items"]:
                nuc, _h = _pick_nuc(names0, absent0, rec[:2])
                req[nuc] = 0.0 if rec[3] else _val(rec[2])
            mine = dict(req)
            where = "step %d shareNDs on %s" % (step, [n.obj for n in chosen])
            for k, n in enumerate(chosen):
                if op["wipe"] and k % 2:
                    n.obj.updateNumberDensities(req, wipe=True)
                else:
                    n.obj.setNumberDensities(req)
            held.append((req, mine))
            post_snap = _snapshot(tree)
            inside = {n.leaves[0] for n in chosen}
            for n in chosen:
                got = post_snap[n.leaves[0]][0]
                out.check(got == mine, "edit/read-back-shareNDs", lambda: "%s: %r holds %r, requested %r" % (where, n.obj, got, mine))
            obad = [l for l in range(len(snap)) if l not in inside and snap[l][0] != post_snap[l][0]]
            out.check(not obad, "edit/outside-target-changed",
                      lambda: "%s: composition of %r (not a target) changed" % (where, tree.leaf_nodes[obad[0]].obj))
            vbad = [l for l in range(len(snap)) if snap[l][1] != post_snap[l][1]]
            out.check(not vbad, "edit/volume-changed-by-composition-edit", lambda: "%s: volume of %r changed" % (where, tree.leaf_nodes[vbad[0]].obj))
            _held_check(out, held, where)
            snap = post_snap
            seen = set()
            for n in chosen:
                p = n
                while p is not None and id(p) not in seen:
                    seen.add(id(p))
                    check_node(out, tree, p, snap)
                    p = p.parent
            n_done += 1
            out.label("op:shareNDs@component", "shared:%d" % len(chosen))
            out.nontrivial = True
            # follow-ups: in-place edits of ONE of the components that were given the same dict
            for j, th in enumerate(op["then"]):
                tgt = chosen[(op["who"] + j) % len(chosen)]
                th = dict(th)
                if th["op"] in MASS_OPS and tgt.sf != 1.0 and EXCLUDE_KNOWN.get(SIG_COMP_MASS_SYM):
                    th = {"op": "setND", "nuc": th["nuc"], "v": min(1.0, th["frac"] / 2.5), "zero": False}
                th["level"] = 0
                th["leaf"] = tgt.leaves[0]
                work.insert(j, th)
            continue
        level = levels[op["level"] % len(levels)]
        cands = tree.by_level[level]
        if "_node" in op:  # (internal follow-up step on the object of the previous step)
            cands = [tree.nodes[op["_node"]]]
            op = dict(op, t=0)
        elif "leaf" in op:
            cands = [tree.leaf_nodes[op["leaf"]]]
            op = dict(op, t=0)
        elif kind in MASS_OPS and level == "component":
            free = [n for n in cands if n.sf == 1.0]
            pick = cands[op["t"] % len(cands)]
            if EXCLUDE_KNOWN.get(SIG_COMP_MASS_SYM) and not op.get("known"):
                if pick.sf != 1.0:
                    out.label("excluded:" + SIG_COMP_MASS_SYM)
                cands = free
            if not cands:
                continue
        node = cands[op["t"] % len(cands)]
        obj = node.obj
        pre = Agg(tree, node, snap)
        if not pre.vol or pre.vol <= 0:
            out.label("skip:zero-volume-target")
            continue
        present = sorted(pre.names)
        elems_here = {_elem(n)[0] for n in present}
        absent = [n for n in EXTRA_NUCS if n not in pre.names and _elem(n)[0] not in elems_here]
        comp = node.level == "component"
        if not present and (kind in MASS_OPS or kind.startswith("setMassFrac") or kind == "scale"):
            out.label("skip:empty-composition")
            continue
        where = "step %d %s on %s %r" % (step, kind, node.level, obj)
        holders = lambda nuc: sum(1 for ch in node.children if any(nuc in snap[l][0] for l in ch.leaves))  # noqa: E731
        expect = {}  # nuc -> expected atoms after the step (model units); others unchanged unless ``rest`` says otherwise
        rest = "same"  # same | zero | trace | scaled
        rest_factor = 1.0
        reject = False
        even = None  # (nuc, val) for the even-distribution clause
        dens_before = None
        sig_rb = "edit/read-back-%s" % kind
        mass_sym = kind in MASS_OPS and comp and node.sf != 1.0
        if mass_sym:
            sig_rb = SIG_COMP_MASS_SYM
        touched = set()
        try:
            if kind == "adjMF":
                # adjustMassFrac(nuclide/element to adjust, nuclide/element to hold constant, val): docstring "Theory"
                real = [n for n in present if _z(n) is not None and 0 < _z(n) < 119]
                if not real or pre.total_mass() <= 0 or any(pre.atoms[n] < 0 for n in present):
                    out.label("skip:adjustMassFrac-not-applicable")
                    continue
                nA = real[op["adj"][0] % len(real)]
                byE = bool(op["adj"][1])
                nH = real[op["hold"][0] % len(real)]
                hmode = op["hold"][1] % 3 if _z(nH) != _z(nA) else 0
                if op["seed"][1] and (byE or hmode == 2):
                    # give the object a nuclide of that element that is rare in libraries (drawn from the whole directory)
                    zs = _z(nA) if byE else _z(nH)
                    exotic = sorted(_names_of_z(zs) - pre.names - {n for n in _names_of_z(zs) if _elem(n)[1]})
                    hosts = [l for l in node.leaves if snap[l][1] > 0 and any(_z(k) == zs for k in snap[l][0])]
                    if exotic and hosts:
                        tree.leaf_nodes[hosts[0]].obj.setNumberDensity(exotic[op["seed"][0] % len(exotic)], _val(op["v"]))
                        snap = _snapshot(tree)
                        pre = Agg(tree, node, snap)
                        present = sorted(pre.names)
                        out.label("adjustMassFrac:with-rare-isotope")
                M = pre.total_mass()
                Aset = {n for n in present if _z(n) == _z(nA)} if byE else {nA}
                Cset = set() if hmode == 0 else ({nH} if hmode == 1 else {n for n in present if _z(n) == _z(nH)})
                A = math.fsum(pre.mass(n) for n in Aset) / M
                Cs = math.fsum(pre.mass(n) for n in Cset) / M
                O = 1.0 - A - Cs
                if O <= 1e-6 or Cs >= 0.98:
                    out.label("skip:adjustMassFrac-not-applicable")
                    continue
                v = round((0.02 + 0.9 * op["frac"]) * (1.0 - Cs), 9)
                # roundoff model of the documented algorithm: every mass fraction is good to a few ulp OF ONE (the held nuclides are
                # handed on as 1 - sum(everything else)), and the factor for "the others" divides by O = 1 - A - C, itself a
                # difference good to a few ulp of one, so their absolute error grows by (1 - v - C) / O
                adj_mf_tol = 64.0 * 2.220446049250313e-16 * max(1.0, (1.0 - v - Cs) / O)
                for n in present:
                    if n in Aset:
                        mf = pre.mass(n) / M * v / A if A > 0 else v / len(Aset)
                    elif n in Cset:
                        mf = pre.mass(n) / M
                    else:
                        mf = pre.mass(n) / M * (1.0 - v - Cs) / O
                    expect[n] = mf * M * C / _weight(n)
                    out.nontrivial = True
                out.label("adjustMassFrac:%s/%s" % ("element" if byE else "nuclide", ("none", "nuclide", "element")[hmode]))
                if node.level in ("component", "block", "group"):
                    dens_before = obj.density()
                elemA = _elem(nA)[0]
                obj.adjustMassFrac(nuclideToAdjust=None if byE else nA, elementToAdjust=elemA if byE else None,
                                   nuclideToHoldConstant=nH if hmode == 1 else None,
                                   elementToHoldConstant=_elem(nH)[0] if hmode == 2 else None, val=v)
            elif kind == "setND":
                nuc, here = _pick_nuc(present, absent, op["nuc"])
                if op.get("partial") and not comp:
                    some = [n for n in present if 0 < holders(n) < len(node.children)]
                    if some:
                        nuc, here = some[op["nuc"][0] % len(some)], True
                        out.label("setND:held-by-some-children")
                val = 0.0 if op["zero"] else _val(op["v"])
                touched.add(nuc)
                if not comp and not here and val != 0.0:
                    reject = True
                if not reject and (here or comp or val == 0.0):
                    expect[nuc] = val * pre.vol if (here or comp) else 0.0
                    if not comp and here:
                        even = (nuc, val)
                out.nontrivial = out.nontrivial or (not comp and holders(nuc) >= 2)
                obj.setNumberDensity(nuc, val)
                if reject:
                    out.fail("edit/setNumberDensity-absent-nuclide-accepted",
                             "%s: %s is held by no child, value %r accepted without ValueError" % (where, nuc, val))
            elif kind in ("updND", "setNDs"):
                req = {}
                for rec in op["items"]:
                    nuc, here = _pick_nuc(present, absent, rec[:2])
                    req[nuc] = 0.0 if rec[3] else _val(rec[2])
                for nuc, val in req.items():
                    touched.add(nuc)
                    expect[nuc] = val * pre.vol
                    out.nontrivial = out.nontrivial or (not comp and holders(nuc) >= 2)
                if kind == "setNDs":
                    rest = "zero"
                    obj.setNumberDensities(dict(req))
                else:
                    obj.updateNumberDensities(dict(req))
            elif kind == "scale":
                f = op["f"]
                rest, rest_factor = "scaled", f
                touched |= set(present)
                try:
                    obj.changeNDensByFactor(f)
                except AttributeError as exc:
                    # known finding: the generic implementation reads component-only parameters after it has scaled
                    if comp or not any(k in str(exc) for k in ("pinNDens", "detailedNDens")):
                        raise
                    if op.get("known") or not EXCLUDE_KNOWN.get(SIG_SCALE_RAISES):
                        out.fail(SIG_SCALE_RAISES, "%s: changeNDensByFactor(%r) raised %s: %s" % (where, f, type(exc).__name__, exc))
                    else:
                        out.label("excluded:" + SIG_SCALE_RAISES)
            elif kind in ("addMass", "removeMass", "setMass"):
                nuc, here = _pick_nuc(present, absent, op["nuc"])
                touched.add(nuc)
                cur = pre.mass(nuc)
                ref = cur if cur > 0 else max(pre.total_mass(), 1.0) * 1e-3
                m = op["frac"] * ref
                if kind == "removeMass":
                    m = min(op["frac"], 1.0) * cur
                if not comp and not here and m != 0.0:
                    reject = True
                newmass = m if kind == "setMass" else (cur - m if kind == "removeMass" else cur + m)
                if not reject:
                    expect[nuc] = newmass * C / _weight(nuc)
                out.nontrivial = out.nontrivial or (not comp and holders(nuc) >= 2)
                getattr(obj, kind)(nuc, m)
                if reject and abs(m) < 1e-200:
                    reject = False  # (a sub-normal mass converts to density 0.0: nothing to refuse)
                    expect.clear()
                if reject:
                    out.fail("edit/%s-absent-nuclide-accepted" % kind, "%s: %s held by no child, mass %r accepted" % (where, nuc, m))
            elif kind == "addMasses":
                # a vector of signed masses: additions and removals in one call (never more removed than is present)
                if "_vector" in op:
                    req = dict(op["_vector"])
                else:
                    req = {}
                    for rec in op["items"]:
                        nuc, here = _pick_nuc(present, absent if comp else [], rec[:2])
                        cur = pre.mass(nuc)
                        if rec[3] and cur > 0:
                            req[nuc] = -min(rec[2], 0.9) * cur
                        else:
                            req[nuc] = rec[2] * (cur if cur > 0 else max(pre.total_mass(), 1.0) * 1e-3)
                    if op["mix"] and len(req) >= 2 and all(m > 0 for m in req.values()):
                        for nuc in sorted(req):
                            if pre.mass(nuc) > 0:
                                req[nuc] = -min(abs(req[nuc]) / pre.mass(nuc), 0.9) * pre.mass(nuc)
                                break
                signs = {m > 0 for m in req.values() if m}
                out.label("addMasses:mixed-sign" if len(signs) == 2 else "addMasses:one-sign")
                for nuc, m in req.items():
                    touched.add(nuc)
                    expect[nuc] = (pre.mass(nuc) + m) * C / _weight(nuc)
                    out.nontrivial = out.nontrivial or (not comp and holders(nuc) >= 2) or len(signs) == 2
                obj.addMasses(dict(req))
            elif kind == "setMasses":
                req = {}
                for rec in op["items"]:
                    nuc, here = _pick_nuc(present, [] if not comp else absent, rec[:2])
                    cur = pre.mass(nuc)
                    ref = cur if cur > 0 else max(pre.total_mass(), 1.0) * 1e-3
                    req[nuc] = rec[2] * ref
                for nuc, m in req.items():
                    touched.add(nuc)
                    expect[nuc] = m * C / _weight(nuc)
                    out.nontrivial = out.nontrivial or (not comp and holders(nuc) >= 2)
                rest = "trace"
                obj.setMasses(dict(req))
            elif kind in ("setMassFracs", "setMassFrac"):
                M = pre.total_mass()
                req = {}
                newcomers = []
                for rec in op["items"][: 1 if kind == "setMassFrac" else 3]:
                    # rec = [index, fraction, wantAbsent]: a nuclide the object does not hold yet may be assigned too
                    nuc, here = _pick_nuc(present, absent, [rec[0], len(rec) > 2 and rec[2]])
                    req[nuc] = rec[1]
                for nuc in req:
                    if nuc not in pre.names:
                        newcomers.append(nuc)
                others = math.fsum(pre.mass(n) for n in present if n not in req)
                if not req or M <= 0 or others <= 0 or any(pre.atoms[n] < 0 for n in present):
                    out.label("skip:massfrac-needs-other-nuclides")
                    continue
                if newcomers:
                    out.label("massfrac:new-nuclide" if len(newcomers) == len(req) else "massfrac:new-and-present")
                    if not comp:
                        reject = True  # documented: a composite cannot take a nuclide none of its children holds
                T = math.fsum(req.values())
                for nuc, fr in req.items():
                    expect[nuc] = fr * M * C / _weight(nuc)
                    out.nontrivial = out.nontrivial or (not comp and holders(nuc) >= 2) or (comp and nuc in newcomers)
                rest, rest_factor = "scaled", (1.0 - T) * M / others
                touched |= set(present)
                if node.level in ("component", "block", "group"):
                    dens_before = obj.density()
                if kind == "setMassFrac":
                    (n1, f1), = req.items()
                    obj.setMassFrac(n1, f1)
                else:
                    obj.setMassFracs(dict(req))
                if reject:
                    out.fail("edit/setMassFracs-absent-nuclide-accepted", "%s: %s held by no child, accepted" % (where, newcomers))
            else:
                raise KeyError(kind)
        except ValueError as exc:
            if not reject:
                raise
            msg = str(exc)
            if "does not exist in any children" not in msg:
                raise
            n_rej += 1
            out.label("rejected:" + kind)
            snap = _snapshot(tree)  # (a refused setter is documented; nothing is asserted about it)
            continue
        n_done += 1
        out.label("op:%s@%s" % (kind, node.level))
        post_snap = _snapshot(tree)
        post = Agg(tree, node, post_snap)
        # -- volumes are not changed by a composition edit (stock materials)
        vbad = [l for l in range(len(snap)) if snap[l][1] != post_snap[l][1]]
        out.check(not vbad, "edit/volume-changed-by-composition-edit",
                  lambda: "%s: volume of %r changed %r -> %r" % (where, tree.leaf_nodes[vbad[0]].obj, snap[vbad[0]][1], post_snap[vbad[0]][1]))
        # -- nothing outside the target changed
        inside = set(node.leaves)
        obad = [l for l in range(len(snap)) if l not in inside and snap[l][0] != post_snap[l][0]]
        out.check(not obad, "edit/outside-target-changed",
                  lambda: "%s: composition of %r (not below the target) changed" % (where, tree.leaf_nodes[obad[0]].obj))
        # -- the requested values read back at the same level (from primitives)
        for nuc, ea in expect.items():
            ga = post.atoms.get(nuc, 0.0)
            scale = max(pre.aabs.get(nuc, 0.0), post.aabs.get(nuc, 0.0))
            ok = _close(ga, ea, scale)
            if kind == "adjMF":
                # absolute tolerance on the MASS FRACTION (64 ulp of one x amplification), translated to atoms of this nuclide
                tol_atoms = adj_mf_tol * pre.total_mass() * C / _weight(nuc)
                ok = abs(ga - ea) <= tol_atoms
                scale = tol_atoms / REL  # (the getter comparison below uses the same absolute tolerance)
            if not out.check(ok, sig_rb,
                             lambda: "%s: %s requested N=%r (mass %r g), children now hold N=%r (mass %r g); before N=%r" % (
                                 where, nuc, ea / pre.vol, ea * _weight(nuc) / C, ga / post.vol, ga * _weight(nuc) / C, pre.ndens(nuc))):
                continue
            # ... and through the getters of the same level
            if kind in MASS_OPS or kind.startswith("setMassFrac") or kind == "adjMF":
                gm = obj.getMass(nuc)
                em = ea * _weight(nuc) / C
                # (a name that is also an element symbol selects the isotopes in components without the elemental nuclide)
                extra, _eabs, _amb = _mass_of_spec(tree, node, post_snap, nuc)
                extra -= post.mass(nuc)
                okm = _close(gm, em + extra, scale * _weight(nuc) / C)
                if kind == "adjMF":
                    okm = abs(gm - em - extra) <= 2.0 * adj_mf_tol * pre.total_mass()
                out.check(okm, sig_rb, lambda: "%s: getMass(%s)=%r after requesting %r g" % (where, nuc, gm, em))
            else:
                gn = obj.getNumberDensity(nuc)
                out.check(_close(gn, ea / pre.vol, scale / pre.vol), sig_rb,
                          lambda: "%s: getNumberDensity(%s)=%r after requesting %r" % (where, nuc, gn, ea / pre.vol))
        # -- every other nuclide
        for nuc in sorted(pre.names | post.names):
            if nuc in expect:
                continue
            a0 = pre.atoms.get(nuc, 0.0)
            a1 = post.atoms.get(nuc, 0.0)
            if rest == "same":
                out.check(_close(a1, a0, 0.0), "edit/other-nuclide-changed-%s" % kind,
                          lambda: "%s: %s was N=%r, now %r" % (where, nuc, a0 / pre.vol, a1 / post.vol))
            elif rest == "zero":
                out.check(a1 == 0.0, "edit/unlisted-nuclide-not-reset-%s" % kind,
                          lambda: "%s: %s not listed, still N=%r" % (where, nuc, a1 / post.vol))
            elif rest == "trace":
                out.check(0.0 <= a1 / post.vol <= 1e-30, "edit/unlisted-nuclide-not-cleared-%s" % kind,
                          lambda: "%s: %s not listed, still N=%r" % (where, nuc, a1 / post.vol))
            else:
                out.check(_close(a1, a0 * rest_factor, max(pre.aabs.get(nuc, 0.0) * abs(rest_factor), post.aabs.get(nuc, 0.0))),
                          "edit/scaling-%s" % kind,
                          lambda: "%s: %s N %r -> %r, expected factor %r" % (where, nuc, a0 / pre.vol, a1 / post.vol, rest_factor))
        # -- setMassFracs keeps the density
        if kind.startswith("setMassFrac") or kind == "adjMF":
            m0, m1 = pre.total_mass(), post.total_mass()
            out.check(_close(m1, m0, 0.0), "edit/setMassFracs-density-changed",
                      lambda: "%s: total mass %r -> %r at constant volume" % (where, m0, m1))
            if dens_before is not None:
                d1 = obj.density()
                out.check(_close(d1, dens_before, 0.0), "edit/setMassFracs-density-changed",
                          lambda: "%s: density() %r -> %r" % (where, dens_before, d1))
            s = math.fsum(obj.getMassFracs().values())
            out.check(abs(s - 1.0) <= 1e-9, "massfrac/sum-not-one", lambda: "%s: sum(getMassFracs())=%r" % (where, s))
        # -- setNumberDensity distributes evenly over the children that hold the nuclide
        if even is not None and node.children:
            nuc, val = even
            act = [ch for ch in node.children if any(nuc in snap[l][0] for l in ch.leaves)]
            aggs = [Agg(tree, ch, post_snap) for ch in act]
            avf = math.fsum(a.vol for a in aggs) / pre.vol
            if avf > 0:
                want = val / avf
                bad = [(ch, a.ndens(nuc)) for ch, a in zip(act, aggs) if not _close(a.ndens(nuc), want, 0.0)]
                out.check(not bad, "edit/setNumberDensity-not-even-over-holders",
                          lambda: "%s: %s=%r over active volume fraction %r should give every holder %r; %r has %r" % (
                              where, nuc, val, avf, want, bad[0][0].obj, bad[0][1]))
        # -- addMasses(v) followed by addMasses(-v) restores every density of the object
        if kind == "addMasses":
            if "_restore" in op:
                for nuc in sorted(pre.names | post.names | set(op["_restore"])):
                    a0 = op["_restore"].get(nuc, 0.0)
                    a1 = post.atoms.get(nuc, 0.0)
                    sc = max(pre.aabs.get(nuc, 0.0), post.aabs.get(nuc, 0.0), abs(req.get(nuc, 0.0)) * C / _weight(nuc))
                    out.check(_close(a1, a0, sc), "edit/addMasses-inverse-does-not-restore",
                              lambda: "%s: %s was N=%r before the vector and its opposite were added, now N=%r" % (
                                  where, nuc, a0 / pre.vol, a1 / post.vol))
            elif op.get("inverse") and not out.violations:
                work.insert(0, {"op": "addMasses", "level": 0, "t": 0, "_node": tree.nodes.index(node),
                                "_vector": {n: -m for n, m in req.items()},
                                "_restore": {n: pre.atoms.get(n, 0.0) for n in pre.names}})
        _held_check(out, held, where)
        # -- additivity again, at the target and every ancestor
        snap = post_snap
        p = node
        while p is not None:
            check_node(out, tree, p, snap)
            p = p.parent
        if stats is not None:
            stats["sf"].add(node.sf if node.level in ("component", "block") else max(tree.leaf_nodes[l].sf for l in node.leaves))
    if n_rej and not n_done:
        out.rejected = True
    return snap


# ---------------------------------------------------------------------------------------------------------------
# strategies shared by the object parts

_unit = st.floats(0.0, 1.0, allow_nan=False)


def _nucrec(p_absent=8):
    return st.tuples(st.integers(0, 200), st.integers(0, p_absent).map(lambda x: x == 0)).map(list)


def _op_strategy(nlevels):
    lvl = st.integers(0, nlevels - 1)
    tgt = st.integers(0, 60)
    known = st.just(False) if EXCLUDE_KNOWN.get(SIG_COMP_MASS_SYM) else st.booleans()
    item = st.tuples(st.integers(0, 200), st.integers(0, 3).map(lambda x: x == 0), _unit, st.integers(0, 9).map(lambda x: x == 0)).map(list)
    mitem = st.tuples(st.integers(0, 200), st.integers(0, 8).map(lambda x: x == 0), st.floats(0.01, 3.0).map(lambda x: round(x, 6))).map(list)
    fitem = st.tuples(st.integers(0, 200), st.floats(0.01, 0.3), st.integers(0, 2).map(lambda x: x == 0)).map(list)
    single = st.one_of(
        st.fixed_dictionaries({"op": st.just("setND"), "nuc": _nucrec(), "v": _unit, "zero": st.integers(0, 9).map(lambda x: x == 0)}),
        st.fixed_dictionaries({"op": st.sampled_from(["addMass", "setMass", "removeMass"]), "nuc": _nucrec(),
                               "frac": st.floats(0.01, 2.5).map(lambda x: round(x, 6)), "known": st.just(False)}),
        st.fixed_dictionaries({"op": st.just("updND"), "items": st.lists(item, min_size=1, max_size=2)}),
    )
    share = st.fixed_dictionaries({"op": st.just("shareNDs"), "targets": st.lists(tgt, min_size=2, max_size=3), "wipe": st.booleans(),
                                   "items": st.lists(item, min_size=1, max_size=4), "who": st.integers(0, 2),
                                   "then": st.lists(single, min_size=1, max_size=3)})
    return st.one_of(
        share,
        st.fixed_dictionaries({"op": st.just("setND"), "level": lvl, "t": tgt, "nuc": _nucrec(), "v": _unit,
                               "zero": st.integers(0, 9).map(lambda x: x == 0)}),
        st.fixed_dictionaries({"op": st.sampled_from(["updND", "setNDs"]), "level": lvl, "t": tgt,
                               "items": st.lists(item, min_size=1, max_size=4)}),
        st.fixed_dictionaries({"op": st.just("scale"), "level": lvl, "t": tgt,
                               "f": st.one_of(st.floats(0.05, 4.0), st.sampled_from([0.5, 2.0, 1.0])),
                               "known": st.just(False) if EXCLUDE_KNOWN.get(SIG_SCALE_RAISES) else st.booleans()}),
        st.fixed_dictionaries({"op": st.sampled_from(["addMass", "removeMass", "setMass"]), "level": lvl, "t": tgt,
                               "nuc": _nucrec(), "frac": st.floats(0.0, 2.5).map(lambda x: round(x, 6)), "known": known}),
        st.fixed_dictionaries({"op": st.just("addMasses"), "level": lvl, "t": tgt, "known": known, "mix": st.integers(0, 3).map(lambda x: x != 0),
                               "inverse": st.booleans(),
                               "items": st.lists(st.tuples(st.integers(0, 200), st.integers(0, 8).map(lambda x: x == 0),
                                                           st.floats(0.01, 2.0).map(lambda x: round(x, 6)), st.booleans()).map(list),
                                                 min_size=2, max_size=4)}),
        st.fixed_dictionaries({"op": st.just("adjMF"), "level": lvl, "t": tgt, "adj": st.tuples(st.integers(0, 200), st.integers(0, 2)).map(list),
                               "hold": st.tuples(st.integers(0, 200), st.integers(0, 2)).map(list), "frac": _unit, "v": _unit,
                               "seed": st.tuples(st.integers(0, 400), st.booleans()).map(list)}),
        st.fixed_dictionaries({"op": st.just("setMasses"), "level": lvl, "t": tgt, "items": st.lists(mitem, min_size=1, max_size=3),
                               "known": known}),
        st.fixed_dictionaries({"op": st.sampled_from(["setMassFracs", "setMassFrac"]), "level": lvl, "t": tgt,
                               "items": st.lists(fitem, min_size=1, max_size=3)}),
    )


_order = st.lists(st.integers(0, 200), min_size=2, max_size=5)
_struct_op = st.one_of(
    st.fixed_dictionaries({"op": st.just("adjustDensity"), "t": st.integers(0, 60), "order": _order, "desc": st.booleans(),
                           "all": st.integers(0, 3).map(lambda x: x == 0), "extra": st.integers(0, 4).map(lambda x: x == 0),
                           "frac": st.one_of(st.floats(0.05, 3.0).map(lambda x: round(x, 6)), st.sampled_from([0.5, 2.0])),
                           "ret": st.booleans()}),
    st.fixed_dictionaries({"op": st.just("setHeight"), "t": st.integers(0, 60), "order": _order, "desc": st.booleans(),
                           "all": st.booleans(), "hf": st.floats(0.5, 2.0).map(lambda x: round(x, 4))}),
    st.fixed_dictionaries({"op": st.just("setTemp"), "t": st.integers(0, 60), "outer": st.booleans(),
                           "T": st.floats(30.0, 800.0).map(lambda x: round(x, 1))}),
    st.fixed_dictionaries({"op": st.just("setDim"), "t": st.integers(0, 60), "outer": st.booleans(), "f": _unit}),
    st.fixed_dictionaries({"op": st.just("setPitch"), "t": st.integers(0, 60), "f": _unit}),
    st.fixed_dictionaries({"op": st.just("setMult"), "t": st.integers(0, 60), "f": _unit}),
)


def _ops(nlevels, extra=None, lo=2, hi=8):
    """Edit programs: 1 step in 4 is a structure step (explicit selector: one_of would flatten the alternatives)."""
    alts = [_op_strategy(nlevels), _struct_op] + ([extra] if extra is not None else [])
    sel = st.integers(0, 9)
    pick = st.tuples(sel, *alts).map(lambda t: t[2] if t[0] in (0, 1, 2) else (t[3] if len(t) > 3 and t[0] in (3, 4) else t[1]))
    return st.lists(pick, min_size=lo, max_size=hi)


_query = st.one_of(
    st.fixed_dictionaries({"k": st.just("nuc"), "i": st.lists(st.integers(0, 200), min_size=1, max_size=1)}),
    st.fixed_dictionaries({"k": st.just("elem"), "i": st.lists(st.integers(0, 200), min_size=1, max_size=1)}),
    st.fixed_dictionaries({"k": st.just("list"), "i": st.lists(st.integers(0, 200), min_size=1, max_size=4), "e": st.integers(0, 127)}),
)


# ---------------------------------------------------------------------------------------------------------------
# part 1: directly constructed blocks

SHAPES_2D = ["Circle", "Hexagon", "Rectangle", "SolidRectangle", "Square", "Triangle", "HoledHexagon", "HexHoledCircle",
             "HoledRectangle", "HoledSquare", "Helix", "UnshapedComponent"]
SHAPES_3D = ["Sphere", "Cube", "UnshapedVolumetricComponent"]
MATS_ANY_T = ["UZr", "HT9", "Sodium", "UO2", "B4C", "MOX", "Zr", "Graphite", "Lead", "LeadBismuth", "ThO2", "Uranium",
              "Inconel600", "Inconel625", "Inconel800", "InconelX750", "HastelloyN", "Be9", "Cu", "Magnesium", "MgO",
              "NaCl", "Sc2O3", "Y2O3", "ZnO", "Air", "Lithium", "Cs", "Void"]
# (cold only: no expansion data above room temperature; TZM: tabulated expansion is flat just above 20 C, where armi's
# documented "no linear expansion -> RuntimeError" rule then refuses a 0.4 K difference)
MATS_COLD = ["TZM", "Alloy200", "CaH2", "Californium", "Concrete", "Hafnium", "Inconel", "InconelPE16", "Molybdenum", "NZ",
             "SiC", "Tantalum", "ThU", "Thorium", "UThZr"]
MULTS = [1, 1, 2, 3, 7, 19, 61, 169, 271]
_HOT_OK = set(MATS_ANY_T) | {"UraniumOxide", "ThoriumOxide"}  # material classes whose temperature may be changed


def _comp_spec():
    hot = st.fixed_dictionaries({
        "shape": st.sampled_from(SHAPES_2D + SHAPES_2D + SHAPES_3D),
        "mat": st.sampled_from(MATS_ANY_T),
        "tin": st.sampled_from([20.0, 25.0, 100.0, 350.0]),
        "thot": st.one_of(st.sampled_from([25.0, 450.0]), st.floats(20.0, 800.0).map(lambda x: round(x, 1))),
        "mult": st.sampled_from(MULTS),
        "d": st.lists(st.floats(0.05, 1.0).map(lambda x: round(x, 4)), min_size=4, max_size=4),
        "hollow": st.booleans(),
    })
    cold = st.fixed_dictionaries({
        "shape": st.sampled_from(SHAPES_2D + SHAPES_3D),
        "mat": st.sampled_from(MATS_COLD),
        "tin": st.just(25.0),
        "thot": st.just(25.0),
        "mult": st.sampled_from(MULTS),
        "d": st.lists(st.floats(0.05, 1.0).map(lambda x: round(x, 4)), min_size=4, max_size=4),
        "hollow": st.booleans(),
    })
    return st.one_of(hot, hot, hot, cold)


def _block_spec():
    return st.fixed_dictionaries({
        "geom": st.sampled_from(["hex", "hex", "cart"]),
        "height": st.floats(0.5, 200.0).map(lambda x: round(x, 3)),
        "comps": st.lists(_comp_spec(), min_size=1, max_size=6),
        # a pin bundle written the way inputs are: gap linked to fuel.od / clad.id, clad/gap/wire mult linked to fuel.mult;
        # "closed" = the hot fuel has grown past the clad inner diameter (documented: negative area of the void gap)
        "pin": st.fixed_dictionaries({
            "on": st.integers(0, 2).map(lambda x: x != 0),
            "closed": st.booleans(),
            "delta": st.floats(0.0005, 0.01).map(lambda x: round(x, 5)),
            "mult": st.sampled_from([7, 19, 37, 61, 127]),
            "fuelMat": st.sampled_from(["UZr", "UO2", "MOX"]),
            "tf": st.sampled_from([450.0, 600.0, 700.0]),
            "tc": st.sampled_from([350.0, 450.0]),
            "cladOD": st.floats(0.5, 1.2).map(lambda x: round(x, 4)),
            "wire": st.booleans(),
        }),
        "derived": st.fixed_dictionaries({
            "on": st.integers(0, 3).map(lambda x: x != 0),
            "fill": st.floats(0.2, 0.8).map(lambda x: round(x, 3)),
            "ductMat": st.sampled_from(["HT9", "Zr", "Inconel600"]),
            "ductThot": st.sampled_from([25.0, 400.0]),
            "coolMat": st.sampled_from(["Sodium", "Lead", "Air", "Void", "LeadBismuth"]),
            "coolT": st.sampled_from([25.0, 450.0]),
        }),
    })


def blocks_strategy(tier):
    return st.fixed_dictionaries({
        "blocks": st.lists(_block_spec(), min_size=1, max_size=2),
        "queries": st.lists(_query, min_size=1, max_size=5),
        "sample": st.lists(st.integers(0, 200), min_size=1, max_size=3),
        "ops": st.one_of(_ops(3, lo=2), _ops(3, lo=4)),
    })


def _dims(spec):
    """Dimension kwargs with positive area by construction; also the largest outer length."""
    d = spec["d"]
    sh = spec["shape"]
    hol = spec["hollow"]
    big = 0.3 + 3.0 * d[0]
    big2 = 0.3 + 3.0 * d[1]
    inner = round(0.9 * d[2], 4) if hol else 0.0
    m = float(spec["mult"])
    if sh == "Circle":
        return dict(od=big, id=round(big * inner, 5), mult=m), big
    if sh == "Hexagon":
        return dict(op=big, ip=round(big * inner, 5), mult=m), big * 1.2
    if sh == "Rectangle":
        return dict(lengthOuter=big, widthOuter=big2, lengthInner=round(big * inner, 5), widthInner=round(big2 * inner, 5), mult=m), max(big, big2)
    if sh == "SolidRectangle":
        return dict(lengthOuter=big, widthOuter=big2, mult=m), max(big, big2)
    if sh == "Square":
        return dict(widthOuter=big, widthInner=round(big * inner, 5), mult=m), big
    if sh == "Triangle":
        return dict(base=big, height=big2, mult=m), max(big, big2)
    if sh == "HoledHexagon":
        return dict(op=big, holeOD=round(big * 0.12 * (0.2 + d[2]), 5), nHoles=[1, 7, 19][int(d[3] * 2.999)], mult=m), big * 1.2
    if sh == "HexHoledCircle":
        return dict(od=big, holeOP=round(big * 0.7 * d[2], 5), mult=m), big
    if sh == "HoledRectangle":
        return dict(lengthOuter=big, widthOuter=big2, holeOD=round(min(big, big2) * 0.8 * d[2], 5), mult=m), max(big, big2)
    if sh == "HoledSquare":
        return dict(widthOuter=big, holeOD=round(big * 0.8 * d[2], 5), mult=m), big
    if sh == "Helix":
        od = round(0.05 + 0.3 * d[0], 5)
        return dict(od=od, id=round(od * inner, 5), axialPitch=round(5.0 + 40.0 * d[1], 4), helixDiameter=round(0.3 + 2.0 * d[3], 4), mult=m), 3.0
    if sh == "UnshapedComponent":
        return dict(area=round(0.05 + 9.0 * d[0] * d[1], 5)), 3.5
    if sh == "Sphere":
        return dict(od=big, id=round(big * inner, 5), mult=m), big
    if sh == "Cube":
        return dict(lengthOuter=big, widthOuter=big2, heightOuter=round(0.3 + d[3], 4), lengthInner=round(big * inner, 5),
                    widthInner=round(big2 * inner, 5), heightInner=round((0.3 + d[3]) * inner, 5), mult=m), max(big, big2)
    if sh == "UnshapedVolumetricComponent":
        return dict(volume=round(0.1 + 50.0 * d[0] * d[1], 5)), 1.0
    raise KeyError(sh)


def _shape_volume(c, height):
    """Independent volume of a shaped component from its current (hot) dimensions; None when not covered."""
    name = type(c).__name__
    g = lambda k: float(c.getDimension(k))  # noqa: E731
    hexa = lambda p: math.sqrt(3.0) / 2.0 * p * p  # noqa: E731
    circ = lambda dd: math.pi * dd * dd / 4.0  # noqa: E731
    if name == "Circle":
        a = circ(g("od")) - circ(g("id"))
    elif name == "Hexagon":
        a = hexa(g("op")) - hexa(g("ip"))
    elif name == "Rectangle":
        a = g("lengthOuter") * g("widthOuter") - g("lengthInner") * g("widthInner")
    elif name == "SolidRectangle":
        a = g("lengthOuter") * g("widthOuter")
    elif name == "Square":
        a = g("widthOuter") ** 2 - g("widthInner") ** 2
    elif name == "Triangle":
        a = 0.5 * g("base") * g("height")
    elif name == "HoledHexagon":
        a = hexa(g("op")) - g("nHoles") * circ(g("holeOD"))
    elif name == "HexHoledCircle":
        a = circ(g("od")) - hexa(g("holeOP"))
    elif name == "HoledRectangle":
        a = g("lengthOuter") * g("widthOuter") - circ(g("holeOD"))
    elif name == "HoledSquare":
        a = g("widthOuter") ** 2 - circ(g("holeOD"))
    elif name == "Helix":
        turn = math.hypot(math.pi * g("helixDiameter"), g("axialPitch")) / g("axialPitch")
        a = (circ(g("od")) - circ(g("id"))) * turn
    elif name == "Sphere":
        return g("mult") * math.pi / 6.0 * (g("od") ** 3 - g("id") ** 3)
    elif name == "Cube":
        return g("mult") * (g("lengthOuter") * g("widthOuter") * g("heightOuter") - g("lengthInner") * g("widthInner") * g("heightInner"))
    else:
        return None
    return g("mult") * a * height


def build_block(bspec, idx, out):
    from armi.reactor import blocks, components

    hexg = bspec["geom"] == "hex"
    b = (blocks.HexBlock if hexg else blocks.CartesianBlock)("blk%d" % idx, height=bspec["height"])
    b.setType("fuel" if idx == 0 else "reflector")
    maxlen = 0.0
    pin = bspec.get("pin")
    if pin and pin["on"]:
        m = float(pin["mult"])
        od = pin["cladOD"]
        probe = components.Circle("probe", "HT9", Tinput=25.0, Thot=pin["tc"], od=od, id=round(0.88 * od, 5), mult=1.0)
        id_hot = probe.getDimension("id")
        f_fuel = components.Circle("probe", pin["fuelMat"], Tinput=25.0, Thot=pin["tf"], od=1.0, id=0.0, mult=1.0).getThermalExpansionFactor()
        fuel_od = round(id_hot * ((1.0 + pin["delta"]) if pin["closed"] else 0.86) / f_fuel, 6)
        fuel = components.Circle("fuel", pin["fuelMat"], Tinput=25.0, Thot=pin["tf"], od=fuel_od, id=0.0, mult=m)
        clad = components.Circle("clad", "HT9", Tinput=25.0, Thot=pin["tc"], od=od, id=round(0.88 * od, 5), mult="fuel.mult",
                                 components={"fuel": fuel})
        gap = components.Circle("gap", "Void", Tinput=pin["tc"], Thot=pin["tc"], id="fuel.od", od="clad.id", mult="fuel.mult",
                                components={"fuel": fuel, "clad": clad})
        parts = [fuel, gap, clad]
        if pin["wire"]:
            parts.append(components.Helix("wire", "HT9", Tinput=25.0, Thot=pin["tc"], od=round(0.08 * od, 5), id=0.0, axialPitch=30.0,
                                          helixDiameter=round(1.08 * od, 5), mult="fuel.mult", components={"fuel": fuel}))
        for c in parts:
            b.add(c)
        maxlen = od
        out.label("pin:closed-gap" if pin["closed"] else "pin:open-gap")
    for i, cs in enumerate(bspec["comps"]):
        dims, ext = _dims(cs)
        maxlen = max(maxlen, ext)
        cls = getattr(components, cs["shape"])
        c = cls("%s%d" % (cs["shape"].lower()[:8], i), cs["mat"], Tinput=cs["tin"], Thot=cs["thot"], **dims)
        b.add(c)
        out.label("shape:" + cs["shape"], "mat:" + cs["mat"])
    der = bspec["derived"]
    if der["on"]:
        h = bspec["height"]
        area = math.fsum(c.getVolume() for c in b) / h
        unit = math.sqrt(3.0) / 2.0 if hexg else 1.0
        P = round(max(math.sqrt(area / der["fill"] / unit), 1.3 * maxlen, 2.0), 4)
        if hexg:
            duct = components.Hexagon("duct", der["ductMat"], Tinput=25.0, Thot=der["ductThot"], op=P, ip=round(P * 0.96, 5), mult=1.0)
        else:
            duct = components.Rectangle("duct", der["ductMat"], Tinput=25.0, Thot=der["ductThot"], lengthOuter=P, widthOuter=P,
                                        lengthInner=round(P * 0.96, 5), widthInner=round(P * 0.96, 5), mult=1.0)
        b.add(duct)
        b.add(components.DerivedShape("coolant", der["coolMat"], Tinput=der["coolT"], Thot=der["coolT"]))
        out.label("derived")
    return b


def blocks_execute(case):
    from armi.reactor import composites

    out = Out()
    _ALLOW_KNOWN[0] = bool(case.get("known"))
    tree = Tree()
    group = None
    root = None
    blks = [build_block(bs, i, out) for i, bs in enumerate(case["blocks"])]
    if len(blks) > 1:
        group = composites.Composite("group")
        for b in blks:
            group.add(b)
        root = tree.add("group", group)
    for b in blks:
        bn = _tree_of_block(tree, b, root)
        if root is None:
            root = bn
    snap = _snapshot(tree)
    nt_geom = False
    for bn, bs in zip(tree.by_level["block"], case["blocks"]):
        nt_geom = nt_geom or (len(bn.children) >= 3 and bs["derived"]["on"] and any(c["mult"] > 1 for c in bs["comps"]))
        out.check(bn.sf == 1.0, "symmetry/factor", "a block outside any core has symmetry factor %r" % bn.sf)

    def geometry(sn):
        for bn, bs in zip(tree.by_level["block"], case["blocks"]):
            b = bn.obj
            h = b.getHeight()
            # volume of each shaped component from its own dimensions; derived coolant fills the rest of the cell
            for cn in bn.children:
                ev = _shape_volume(cn.obj, h)
                if ev is not None:
                    gv = sn[cn.leaves[0]][1]
                    out.check(_close(gv, ev), "volume/shape-formula",
                              lambda: "%r: getVolume()=%r, %s dimensions give %r" % (cn.obj, gv, type(cn.obj).__name__, ev))
            if bs["derived"]["on"]:
                maxv = b.getMaxArea() * h
                pitch = b.getPitch()
                cell = (math.sqrt(3.0) / 2.0 * pitch * pitch) if bs["geom"] == "hex" else pitch[0] * pitch[1]
                tot = math.fsum(sn[l][1] for l in bn.leaves)
                out.check(_close(tot, cell * h) and _close(maxv, cell * h), "volume/derived-shape-fills-cell",
                          lambda: "%r: components sum to %r, lattice cell volume %r (getMaxArea*h %r)" % (b, tot, cell * h, maxv))
        check_block_areas(out, tree, tree.by_level["block"], sn)

    def recheck(sn):
        geometry(sn)
        for n in tree.nodes:
            check_node(out, tree, n, sn)

    geometry(snap)
    out.nontrivial = nt_geom
    queries = _queries(tree, root, snap, case["queries"])
    for n in tree.nodes:
        check_node(out, tree, n, snap, full=True, queries=queries, sample=case["sample"])
    if case["ops"]:
        snap = run_program(out, tree, case["ops"], recheck=recheck)
        geometry(snap)
        queries = _queries(tree, root, snap, case["queries"])
        for n in tree.nodes:
            check_node(out, tree, n, snap, full=True, queries=queries, sample=case["sample"])
    out.label("blocks:%d" % len(blks), "ops:%d" % min(len(case["ops"]), 8))
    return out


# ---------------------------------------------------------------------------------------------------------------
# part 2: whole reactors from blueprint text


def reactors_strategy(tier):
    third = rg.reactor_spec(geoms=("hex", "hex", "hex_corners_up"), symmetries=["third periodic"], max_rings=3, max_blocks=3, min_assems=3)
    full = rg.reactor_spec(geoms=("hex", "hex_corners_up"), symmetries=["full"], max_rings=2, max_blocks=3, min_assems=2)
    cart = rg.reactor_spec(geoms=("cartesian",), max_rings=2, max_blocks=3, min_assems=2)
    tiny = rg.reactor_spec(geoms=("hex", "hex_corners_up", "cartesian"), max_rings=1, max_blocks=2)
    rzt = rg.rzt_spec(max_r=3, max_theta=3, max_blocks=3)
    return st.fixed_dictionaries({
        "spec": st.one_of(third, third, third, full, cart, cart, tiny, rzt),
        "edge": st.booleans(),
        "known": st.just(False) if EXCLUDE_KNOWN.get(SIG_CART_FULL) else st.booleans(),
        "queries": st.lists(_query, min_size=1, max_size=4),
        "sample": st.lists(st.integers(0, 200), min_size=1, max_size=2),
        # (explicit selector: 3 in 10 structure steps, 2 in 10 swaps, the rest composition setters)
        "ops": _ops(4, extra=st.one_of(_swap_op, _history_op), lo=2, hi=7),
    })


# exchange two assemblies the way FuelHandler.swapAssemblies does (a1.moveTo(loc2); a2.moveTo(loc1)); ``cross`` asks for a pair
# whose symmetry factors differ (centre <-> off-centre, on a symmetry line <-> off the line)
_history_op = st.fixed_dictionaries({"op": st.just("editHeightEdit"), "level": st.integers(0, 1), "t": st.integers(0, 30), "b": st.integers(0, 30),
                                     "n1": st.tuples(st.integers(0, 200), st.just(False)).map(list), "v1": _unit,
                                     "n2": st.tuples(st.integers(0, 200), st.just(False)).map(list), "v2": _unit,
                                     "hf": st.sampled_from([0.5, 0.75, 1.5, 2.0])})
_swap_op = st.fixed_dictionaries({"op": st.just("swap"), "a": st.integers(0, 30), "b": st.integers(0, 30),
                                  "cross": st.integers(0, 3).map(lambda x: x != 0)})


def _expected_sf(spec, cells, i, j):
    """Documented rule of Hex/CartesianBlock.getSymmetryFactor."""
    if spec["geom"].startswith("hex"):
        if not spec["symmetry"].startswith("third"):
            return 1.0
        line = hm.symmetry_line(i, j)
        if line == "center":
            return 3.0
        if line in (0, 120) and (-1, 2) in cells:
            return 2.0
        return 1.0
    if "through center" in spec["symmetry"]:
        if i == 0 and j == 0:
            return 4.0
        if i == 0 or j == 0:
            return 2.0
    return 1.0


def reactors_execute(case):
    out = Out()
    spec = case["spec"]
    _cs, _bp, r = rg.build(spec)
    core = r.core
    third = spec["geom"].startswith("hex") and spec["symmetry"].startswith("third")
    cart_full = spec["geom"] == "cartesian" and spec["symmetry"] == "full"
    if case["edge"] and third:
        from armi.reactor.converters import geometryConverters

        geometryConverters.EdgeAssemblyChanger().addEdgeAssemblies(core)
    tree = Tree()
    cn = tree.add("core", core)
    cells = set()
    for a in core:
        ij = a.spatialLocator.getCompleteIndices()
        cells.add((int(ij[0]), int(ij[1])))
    sfs = set()
    for a in core:
        an = tree.add("assembly", a, cn)
        for b in a:
            _tree_of_block(tree, b, an)

    def sync_symmetry():
        """(Re-)read the symmetry factor of every block, compare with the documented rule, store it on the tree."""
        for an in tree.by_level["assembly"]:
            _sync_assembly(an)

    def _sync_assembly(an):
        a = an.obj
        ij = a.spatialLocator.getCompleteIndices()
        esf = _expected_sf(spec, cells, int(ij[0]), int(ij[1]))
        areas = []
        for bn in an.children:
            b = bn.obj
            bn.sf = float(b.getSymmetryFactor())
            for cnode in bn.children:
                cnode.sf = bn.sf
            sfs.add(bn.sf)
            if bn.sf != esf and cart_full and bn.sf in (2.0, 4.0):
                # known finding: CartesianBlock.getSymmetryFactor does not look at the domain; an odd-by-odd full core is
                # "full through center" and its centre/axis assemblies are cut although no symmetry line exists
                if case.get("known") or not EXCLUDE_KNOWN.get(SIG_CART_FULL):
                    out.fail(SIG_CART_FULL, "%r at %s in a full Cartesian core (%s): getSymmetryFactor()=%r, nothing is cut in a full core" % (
                        b, (int(ij[0]), int(ij[1])), core.symmetry, bn.sf))
                else:
                    out.label("excluded:" + SIG_CART_FULL)
                esf = bn.sf  # the remaining accounting is checked with the factor armi uses
            out.check(bn.sf == esf, "symmetry/factor",
                      lambda: "%r at %s in %s %s core: getSymmetryFactor()=%r, documented rule gives %r" % (
                          b, (int(ij[0]), int(ij[1])), spec["geom"], spec["symmetry"], bn.sf, esf))
            areas.append(math.fsum(float(c.getVolume()) for c in b) / b.getHeight() / bn.sf)
        an.sf = esf
        an.area_ok = max(areas) - min(areas) <= 1e-12 * max(areas)
        if not an.area_ok:
            cn.area_ok = False
            out.label("assembly-areas-differ")

    sync_symmetry()
    out.label("geom:%s/%s" % (spec["geom"], spec["symmetry"].split()[0]), "assemblies:%d" % min(len(core), 10))
    for s in sorted(sfs):
        out.label("sf:%g" % s)
    out.nontrivial = any(s != 1.0 for s in sfs)
    snap = _snapshot(tree)
    # block volume = lattice cell x height / symmetry (every generated block has a derived coolant)
    P = spec.get("pitch", 0.0)
    cell = math.sqrt(3.0) / 2.0 * P * P if spec["geom"].startswith("hex") else P * P
    for bn in tree.by_level["block"] if spec["geom"] != "thetarz" else []:
        tot = math.fsum(snap[l][1] for l in bn.leaves)
        ev = cell * bn.obj.getHeight()
        out.check(_close(tot, ev), "volume/derived-shape-fills-cell",
                  lambda: "%r: components sum to %r, lattice cell volume %r" % (bn.obj, tot, ev))
    queries = _queries(tree, cn, snap, case["queries"])
    # full battery on the core, every assembly, every block; components of the first two assemblies
    k = case["sample"][0]
    assems = tree.by_level["assembly"]
    focus = {id(assems[k % len(assems)]), id(assems[0])}

    def battery(snapshot, qs):
        for n in tree.nodes:
            a = n
            while a is not None and a.level != "assembly":
                a = a.parent
            near = a is None or id(a) in focus
            if n.level == "component" and not near:
                check_node(out, tree, n, snapshot)
            else:
                check_node(out, tree, n, snapshot, full=True, queries=qs, sample=case["sample"],
                           density=near and n.level != "assembly")

    def block_areas(snapshot, nodes):
        """Block.getArea() (hot; the cold flavour shares its cache key and is never asked) x height is the block volume."""
        for bn in nodes:
            agg = Agg(tree, bn, snapshot)
            ah = bn.obj.getArea() * bn.obj.getHeight()
            out.check(_close(ah, agg.vol), "additivity/area-block",
                      lambda: "%r (symmetry factor %r): getArea()*height=%r, components give volume %r" % (bn.obj, bn.sf, ah, agg.vol))

    battery(snap, queries)
    block_areas(snap, tree.by_level["block"])

    def swap(op, step, snapshot):
        assems_ = tree.by_level["assembly"]
        if len(assems_) < 2 or spec["geom"] == "thetarz":
            out.label("skip:swap-not-applicable")
            return snapshot
        cut = [n for n in assems_ if n.sf != 1.0]
        n1 = n2 = None
        if op["cross"] and cut:
            n1 = cut[op["a"] % len(cut)]
            pool = [n for n in assems_ if n.sf != n1.sf]
            if pool:
                n2 = pool[op["b"] % len(pool)]
        if n2 is None:
            n1 = assems_[op["a"] % len(assems_)]
            pool = [n for n in assems_ if n is not n1]
            n2 = pool[op["b"] % len(pool)]
        a1, a2 = n1.obj, n2.obj
        where = "step %d swap %r (factor %g) <-> %r (factor %g)" % (step, a1, n1.sf, a2, n2.sf)
        out.label("op:swap", "swap:%g<->%g" % (max(n1.sf, n2.sf), min(n1.sf, n2.sf)))
        if n1.sf != n2.sf:
            out.nontrivial = True
        for a in (a1, a2):  # whatever a reader caches is cached now
            a.getVolume()
            for b in a:
                b.getArea()
                b.getVolume()
        loc1 = a1.spatialLocator
        a1.moveTo(a2.spatialLocator)
        a2.moveTo(loc1)
        _sync_assembly(n1)
        _sync_assembly(n2)
        post = _snapshot(tree)
        bad = [l for l in range(len(post)) if post[l] != snapshot[l]]
        out.check(not bad, "move/changed-component-primitives",
                  lambda: "%s: (N,V) of %r changed by the move" % (where, tree.leaf_nodes[bad[0]].obj))
        qs = _queries(tree, cn, post, case["queries"])
        for n in tree.nodes:
            if n.level == "component":
                continue
            mine = n in (n1, n2) or n.parent in (n1, n2)
            check_node(out, tree, n, post, full=mine, queries=qs, sample=case["sample"], density=mine and n.level == "block")
        block_areas(post, n1.children + n2.children)
        return post

    def recheck(sn):
        for n in tree.nodes:
            if n.level != "component":
                check_node(out, tree, n, sn)
        block_areas(sn, tree.by_level["block"])

    stats = {"sf": set()}
    snap = run_program(out, tree, case["ops"], stats=stats, handlers={"swap": swap}, recheck=recheck)
    block_areas(snap, tree.by_level["block"])
    if any(s != 1.0 for s in stats["sf"]):
        out.label("edited-under-symmetry-cut")
    battery(snap, _queries(tree, cn, snap, case["queries"]))
    return out


# ---------------------------------------------------------------------------------------------------------------
# part 3: composition-dependent thermal expansion (documented mole conservation of updateNumberDensities)


def expansion_strategy(tier):
    item = st.tuples(st.integers(0, 20), st.integers(0, 3).map(lambda x: x == 0), _unit).map(list)
    return st.fixed_dictionaries({
        "shape": st.sampled_from(["Circle", "Hexagon", "Square", "Triangle"]),
        "d": st.lists(st.floats(0.05, 1.0).map(lambda x: round(x, 4)), min_size=4, max_size=4),
        "mult": st.sampled_from(MULTS),
        "tin": st.sampled_from([20.0, 25.0, 200.0]),
        "thot": st.floats(20.0, 800.0).map(lambda x: round(x, 1)),
        "height": st.floats(0.5, 100.0).map(lambda x: round(x, 3)),
        "sibling": st.booleans(),
        "ops": st.lists(st.fixed_dictionaries({"op": st.sampled_from(["setND", "updND", "setNDs", "block-setND"]),
                                               "items": st.lists(item, min_size=1, max_size=3)}), min_size=1, max_size=5),
    })


def expansion_execute(case):
    from armi.materials import material
    from armi.reactor import blocks, components

    class CompositionDependentExpander(material.Material):
        """Thermal expansion depends on the carbon mass fraction of the owning component (as in armi's own test)."""

        def linearExpansionPercent(self, Tk=None, Tc=None):
            if Tc is None:
                Tc = Tk - 273.15
            frac = self.parent.getMassFrac("C") if self.parent is not None else 0.0
            return (1.0e-5 + 1.0e-5 * frac) * Tc * (Tc - 20.0)

    out = Out()
    b = blocks.HexBlock("blk", height=case["height"])
    dims, _ext = _dims({"shape": case["shape"], "d": case["d"], "mult": case["mult"], "hollow": False})
    c = getattr(components, case["shape"])("part", "HT9", Tinput=case["tin"], Thot=case["thot"], **dims)
    b.add(c)
    if case["sibling"]:
        b.add(components.Circle("other", "Sodium", Tinput=400.0, Thot=400.0, od=1.0, id=0.0, mult=3.0))
    mat = CompositionDependentExpander()
    mat.parent = c
    c.material = mat
    c.clearLinkedCache()
    out.nontrivial = case["thot"] != case["tin"]
    tree = Tree()
    bn = _tree_of_block(tree, b, None)
    for step, op in enumerate(case["ops"]):
        N0 = dict(c.getNumberDensities())
        V0 = float(c.getVolume())
        names = sorted(N0)
        pool = names + ["C", "FE", "PU239"]
        req = {}
        for i, zero, v in op["items"]:
            req[pool[i % len(pool)]] = 0.0 if zero else _val(v)
        kind = op["op"]
        if kind in ("setND", "block-setND"):
            nuc = next(iter(req))
            req = {nuc: req[nuc]}
        want = dict(N0)
        if kind == "setNDs":
            want = dict(req)
        elif kind == "block-setND":
            holders = [ch for ch in b if nuc in ch.getNumberDensities()]
            if c not in holders:
                continue
            vols = math.fsum(float(ch.getVolume()) for ch in holders)
            vb = math.fsum(float(ch.getVolume()) for ch in b)
            want[nuc] = req[nuc] * vb / vols
        else:
            want.update(req)
        if not any(v > 0 for v in want.values()):
            continue  # an empty composition has no mass fractions to expand with
        if kind == "setND":
            c.setNumberDensity(nuc, req[nuc])
        elif kind == "updND":
            c.updateNumberDensities(dict(req))
        elif kind == "setNDs":
            c.setNumberDensities(dict(req))
        else:
            b.setNumberDensity(nuc, req[nuc])
        N1 = dict(c.getNumberDensities())
        V1 = float(c.getVolume())
        out.label("expansion:%s" % kind, "volume-changed" if V1 != V0 else "volume-same")
        out.check(set(N1) == set(want), "expansion/nuclide-set", lambda: "step %d %s: keys %s expected %s" % (step, kind, sorted(N1), sorted(want)))
        bad = [(n, N1.get(n, 0.0) * V1, want[n] * V0) for n in sorted(want) if not _close(N1.get(n, 0.0) * V1, want[n] * V0)]
        out.check(not bad, "expansion/moles-not-conserved",
                  lambda: "step %d %s: %s requested N=%r at V=%r (moles %r) but now N=%r at V=%r (moles %r)" % (
                      step, kind, bad[0][0], want[bad[0][0]], V0, bad[0][2], N1.get(bad[0][0]), V1, bad[0][1]))
        snap = _snapshot(tree)
        check_node(out, tree, bn, snap, full=True, sample=[step])
        check_node(out, tree, tree.leaf_nodes[0], snap, full=True, sample=[step])
    return out


# ---------------------------------------------------------------------------------------------------------------
# part 4: conversions of densityTools are mutual inverses


def conversions_strategy(tier):
    return st.fixed_dictionaries({
        "nucs": st.one_of(st.lists(st.integers(0, 100000), min_size=1, max_size=12, unique=True),
                          st.lists(st.integers(0, 100000), min_size=3, max_size=12, unique=True)),
        "vals": st.lists(_unit, min_size=12, max_size=12),
        "zero": st.lists(st.integers(0, 11), max_size=2),
        "rho": st.floats(1e-4, 25.0),
        "volume": st.floats(1e-3, 1e6),
        "norm": st.floats(0.1, 10.0),
        "elems": st.lists(st.integers(0, 200), min_size=1, max_size=3, unique=True),
        "subset": st.integers(0, 255),
    })


_NAMES = {}


def _directory():
    if not _NAMES:
        from armi.nucDirectory import elements, nuclideBases

        _NAMES["nuc"] = sorted(n for n, nb in nuclideBases.byName.items() if nb.weight and nb.weight > 0)
        _NAMES["elem"] = sorted(e.symbol for e in elements.byZ.values() if len(e.getNaturalIsotopics()) >= 1)
    return _NAMES


def conversions_execute(case):
    from armi.nucDirectory import elements
    from armi.utils import densityTools as dt

    out = Out()
    C, _B = _consts()
    d = _directory()
    names = [d["nuc"][i % len(d["nuc"])] for i in case["nucs"]]
    names = sorted(set(names))
    N = {n: _val(case["vals"][k]) for k, n in enumerate(names)}
    for z in case["zero"]:
        if len(names) > 1:
            N[names[z % len(names)]] = 0.0
    out.nontrivial = len(names) >= 2
    out.label("nuclides:%d" % min(len(names), 12))
    W = {n: _weight(n) for n in names}
    # independent density and fractions
    rho_e = math.fsum(N[n] * W[n] / C for n in names)
    rho = dt.calculateMassDensity(dict(N))
    out.check(_close(rho, rho_e), "conv/calculateMassDensity", lambda: "calculateMassDensity=%r expected %r for %r" % (rho, rho_e, N))
    mf = dt.getMassFractions(dict(N))
    if rho_e > 0:
        s = math.fsum(mf.values())
        out.check(abs(s - 1.0) <= 1e-12 * len(names) + 1e-13, "conv/mass-fractions-sum", lambda: "sum(getMassFractions)=%r for %r" % (s, N))
        bad = [n for n in names if not _close(mf[n], N[n] * W[n] / C / rho_e)]
        out.check(not bad and set(mf) == set(names), "conv/getMassFractions", lambda: "%s: %r expected %r" % (bad[0], mf[bad[0]], N[bad[0]] * W[bad[0]] / C / rho_e))
        # inverse: fractions + density -> number densities
        back = dt.getNDensFromMasses(rho, dict(mf))
        bad = [n for n in names if not _close(back[n], N[n], max(N.values()) * 1e-6)]
        out.check(not bad and set(back) == set(names), "conv/getNDensFromMasses-inverse",
                  lambda: "%s: N=%r -> fraction %r at rho %r -> N=%r" % (bad[0], N[bad[0]], mf[bad[0]], rho, back[bad[0]]))
        mf2 = dt.getMassFractions(back)
        out.check(all(_close(mf2[n], mf[n], 1e-6) for n in names), "conv/getMassFractions-inverse", "fractions do not survive the round trip")
    # arbitrary density: N from (rho, fractions) gives that density and those fractions back
    fr_raw = {n: case["vals"][-1 - k] + 1e-3 for k, n in enumerate(names)}
    tot = math.fsum(fr_raw.values())
    fr = {n: v / tot for n, v in fr_raw.items()}
    N2 = dt.getNDensFromMasses(case["rho"], dict(fr))
    bad = [n for n in names if not _close(N2[n], fr[n] * case["rho"] * C / W[n])]
    out.check(not bad, "conv/getNDensFromMasses", lambda: "%s: %r expected %r" % (bad[0], N2[bad[0]], fr[bad[0]] * case["rho"] * C / W[bad[0]]))
    r2 = dt.calculateMassDensity(N2)
    out.check(_close(r2, case["rho"]), "conv/density-roundtrip", lambda: "rho %r -> N -> rho %r" % (case["rho"], r2))
    f2 = dt.getMassFractions(N2)
    out.check(all(_close(f2[n], fr[n], 1e-3) for n in names), "conv/fractions-roundtrip", "fractions %r -> N -> %r" % (fr, f2))
    N3 = dt.getNDensFromMasses(case["rho"], dict(fr_raw), normalize=case["norm"])
    out.check(all(_close(N3[n], N2[n] * case["norm"], 0.0) for n in names), "conv/getNDensFromMasses-normalize",
              lambda: "normalize=%r: %r vs %r" % (case["norm"], N3, N2))
    nn = dt.normalizeNuclideList(dict(fr_raw), normalization=case["norm"])
    out.check(_close(math.fsum(nn.values()), case["norm"]) and all(_close(nn[n] * tot, fr_raw[n] * case["norm"]) for n in names),
              "conv/normalizeNuclideList", lambda: "normalisation %r gives sum %r" % (case["norm"], math.fsum(nn.values())))
    # mass <-> number density for one nuclide in a volume
    V = case["volume"]
    for n in names[:4]:
        m = dt.getMassInGrams(n, V, N[n])
        out.check(_close(m, N[n] * V * W[n] / C), "conv/getMassInGrams", lambda: "%s: %r expected %r" % (n, m, N[n] * V * W[n] / C))
        nb_ = dt.calculateNumberDensity(n, m, V)
        out.check(_close(nb_, N[n]), "conv/calculateNumberDensity-inverse", lambda: "%s: N=%r -> %r g -> N=%r" % (n, N[n], m, nb_))
        m2 = dt.getMassInGrams(n, V, dt.calculateNumberDensity(n, case["rho"], V))
        out.check(_close(m2, case["rho"]), "conv/getMassInGrams-inverse", lambda: "%s: %r g -> N -> %r g" % (n, case["rho"], m2))
    out.check(_close(rho * V, math.fsum(dt.getMassInGrams(n, V, N[n]) for n in names)), "conv/mass-is-density-times-volume", "rho*V differs from the sum of nuclide masses")
    out.check(dt.calculateNumberDensity(names[0], 0.0, 0.0) == 0, "conv/calculateNumberDensity-zero", "0 g in 0 cm3 is not density 0")
    # element -> nuclides of the directory: membership by atomic number
    from armi.nucDirectory import nucDir

    for s_ in sorted({_elem(n)[0] for n in names[:3]} | set(d["elem"][i % len(d["elem"])] for i in case["elems"])):
        if s_ is None or s_ not in elements.bySymbol or not 0 < elements.bySymbol[s_].z < 119:
            continue
        want = _names_of_z(elements.bySymbol[s_].z)
        got = set(nucDir.getNuclideNames(elementSymbol=s_))
        out.check(got == want and {nb.name for nb in nucDir.getNuclides(elementSymbol=s_)} == want, "conv/nuclides-of-element",
                  lambda: "nucDir.getNuclideNames(elementSymbol=%r): missing %s, extra %s" % (s_, sorted(want - got)[:6], sorted(got - want)[:6]))
    # chemicals: element totals
    chem = dt.getChemicals(dict(N))
    exp = {}
    for n in names:
        exp.setdefault(_elem(n)[0], []).append(N[n])
    out.check(set(chem) == set(exp) and all(_close(chem[e], math.fsum(v)) for e, v in exp.items()), "conv/getChemicals", lambda: "%r vs %r" % (chem, exp))
    # elemental expansion conserves the elemental fraction and the isotope proportions
    syms = [d["elem"][i % len(d["elem"])] for i in case["elems"]]
    syms = sorted(set(syms))
    mfe = {s: (k + 1.0) / (len(syms) + 2.0) / 2.0 for k, s in enumerate(syms)}
    mfe[names[0]] = mfe.get(names[0], 0.0) + 0.125
    pairs = []
    expect = dict(mfe)
    for k, s in enumerate(syms):
        el = elements.bySymbol[s]
        nat = el.getNaturalIsotopics()
        sub = [nb for j, nb in enumerate(nat) if (case["subset"] >> (j % 8)) & 1] if k == 0 else None
        if sub is not None and (len(sub) == 0 or len(sub) == len(nat)):
            sub = None
        pairs.append((el, sub))
        use = sub if sub else nat
        wsum = math.fsum(nb.weight * nb.abundance for nb in use)
        frac = expect.pop(s)
        for nb in use:
            expect[nb.name] = expect.get(nb.name, 0.0) + frac * nb.abundance * nb.weight / wsum if nb.name not in mfe or nb.name == s else None
    if not any(v is None for v in expect.values()) and names[0] not in {nb.name for el, sub in pairs for nb in el.getNaturalIsotopics()} and names[0] not in syms:
        got = dict(mfe)
        dt.expandElementalMassFracsToNuclides(got, pairs)
        out.label("elemental-expansion", "isotopic-subset" if pairs[0][1] else "all-natural")
        out.check(set(got) == set(expect) and all(_close(got[k], expect[k]) for k in expect), "conv/expandElementalMassFracsToNuclides",
                  lambda: "expanded %r -> %r, expected %r" % (mfe, got, expect))
        out.check(_close(math.fsum(got.values()), math.fsum(mfe.values())), "conv/expansion-conserves-total", "total mass fraction changed by expansion")
    return out


PARTS = [
    Part("blocks", blocks_execute, strategy=blocks_strategy, budget={"quick": 700, "thorough": 30000}, procs={"quick": 6, "thorough": 16},
         rule="Hypothesis: 1-2 directly built Hex/Cartesian blocks (1-6 components over 12 2-D + 3 3-D shapes, ~44 materials, mult 1..271, "
              "Tinput/Thot, optional duct + derived coolant) inside a generic Composite, 2-8 composition edits at component/block/group level, "
              "nuclide/element/list selections; oracle: block and group quantities recomputed from component (N,V), shape volume formulae, "
              "read-back/untouched/additivity after every edit; non-trivial = >=3 components with derived shape and mult>1, or the edited "
              "nuclide held by >=2 children"),
    Part("reactors", reactors_execute, strategy=reactors_strategy, budget={"quick": 260, "thorough": 12000}, procs={"quick": 8, "thorough": 16},
         rule="Hypothesis: blueprint reactors (hex third/full flats/corners-up <=3 rings, Cartesian full/quarter-through-centre, theta-R-Z, "
              "optional edge assemblies) x 2-7 edits at component/block/assembly/core level; oracle as for blocks at all four levels with the symmetry "
              "factor read from getSymmetryFactor and checked against the documented centre/edge rule; non-trivial = a symmetry factor != 1 "
              "occurs or the edited nuclide is held by >=2 children"),
    Part("expansion", expansion_execute, strategy=expansion_strategy, budget={"quick": 150, "thorough": 5000}, procs={"quick": 2, "thorough": 8},
         rule="Hypothesis: a component whose material expands depending on its carbon fraction, 1-5 number-density edits on it or through its "
              "block; oracle: N_new*V_new == N_requested*V_old (documented mole conservation); non-trivial = Thot != Tinput"),
    Part("conversions", conversions_execute, strategy=conversions_strategy, budget={"quick": 600, "thorough": 30000}, procs={"quick": 2, "thorough": 8},
         rule="Hypothesis: 1-12 nuclides of the directory with log-uniform densities (some zero), density, volume, elements with optional "
              "isotopic subset; oracle: independent formulae with directory weights and inverse pairs getMassFractions/getNDensFromMasses/"
              "calculateMassDensity, calculateNumberDensity/getMassInGrams, normalisation, elemental expansion; non-trivial = >=2 nuclides"),
]
