"""C14 - fuel shuffling conserves the inventory and keeps the core's lookups truthful.

A case is a generated core (blueprint built, hex third/full or Cartesian full/quarter, with holes), a spent-fuel
tracking setting, a stationary-block flag setting and a *program* of fuel-management operations.  The interpreter
applies every operation to armi (``FuelHandler.swapAssemblies / swapCascade / dischargeSwap``, ``Core.add``,
``Core.removeAssembly``) and to a small reference model ({location: assembly}, pool list, purged list, per-assembly
block stack with the stationary exchange applied) and compares the two after EVERY step.
"""
import copy

from hypothesis import strategies as st

from vp.gen import reactor as rg
from vp.runner import Out, Part

PROPERTY = "C14"
LEVEL = "exploration"

# Candidate genuine defects (see the replays/C14/defect_*.json files).  The main search avoids both shapes by
# construction and counts the avoided draws (label ``excluded:<signature>``); part ``known_shapes`` keeps producing them.
#
# 1. A reactor whose blueprint has no explicit ``sfp`` system gets a default SpentFuelPool WITHOUT a spatial grid; with
#    ``trackAssems`` on, ``Core.removeAssembly(a, discharge=True)`` (and therefore ``dischargeSwap``) then dies with an
#    AttributeError in ``SpentFuelPool._updateNumberOfColumns`` after the assembly has already left the core.
# 2. ``dischargeSwap(fresh, outgoing)`` with a fresh assembly from the blueprints (placeholder negative assembly number,
#    exactly what ``FuelHandler.doRepeatShuffle`` passes) and a non-empty stationary exchange: the blocks are exchanged
#    BEFORE ``Core.add`` renumbers the incoming assembly, so the stationary block that stays in the core is renamed
#    while its old name stays in ``blocksByName``, and the fresh stationary block that leaves with the outgoing assembly
#    keeps its placeholder name and is never entered in ``blocksByName`` (it cannot be found in the pool).
# 3. The core's name tables are fed by ``Core.add`` only.  Assemblies that reach the pool by another route - listed in
#    the sfp grid contents of the blueprints (armi's own test input does), or restored by ``Database.load`` - are in the
#    pool but ``getAssemblyByName`` / ``getBlockByName`` raise KeyError for them until somebody calls
#    ``core.regenAssemblyLists()`` (armi.testing.loadTestReactor does; Case/Operator start-up and restart do not).  The
#    main search makes that call whenever the blueprint pre-populates the pool.
SIG_NOGRID = "discharge/default-sfp-has-no-grid"
SIG_FRESH = "dischargeSwap/fresh-incoming-stationary-block-names"
SIG_POOLNAMES = "lookup-by-name/pool-assembly-not-placed-by-core-never-registered"
# fixed in /repo (ffd334b): with trackAssems on and NO spent fuel pool in the reactor, removeAssembly(discharge=True) left
# the assembly - which is in no container - in assembliesByName / blocksByName.  Searched by the main part (no exclusion).
SIG_NOSFP = "discharge/no-sfp-assembly-stays-in-name-tables"
EXCLUDE_KNOWN = {SIG_NOGRID: True, SIG_FRESH: True, SIG_POOLNAMES: True}

ASSUMPTIONS = [
    "the FuelHandler is driven through a two-attribute stand-in operator (.r, .cs): swapAssemblies, swapCascade, "
    "dischargeSwap and _transferStationaryBlocks read nothing else from the operator",
    "the reference model decides which blocks are stationary from the block kind written in the generated blueprint "
    "(grid plate / reflector), not from armi's flags; all assemblies of a core share one list of block heights",
    "contents = block identity and order, block type and height, every component's class, material, input/hot "
    "temperature, dimensions (value or link target) and number densities (all exact), component areas and - for "
    "assemblies in the core - block area and block volume (rel 1e-12), "
    "component masses (rel 1e-10) after undoing the documented symmetry scaling: Component.getMass x the symmetry factor "
    "armi reports for the block at its current place (the factor itself is trusted here; it belongs to C02/C13)",
    "not asserted: block names after an exchange (a block keeps its name), volume-integrated block parameters (rescaled "
    "on/off symmetry lines as Assembly.moveTo documents), numMoves/lastLocationLabel bookkeeping, the order of the pool",
    "Core.add is only used on free locations (locator of the core grid, of an equal grid, detached, or none with the "
    "assembly's own locator), a purged assembly is put back only where it was, removeAssembly only on core members, the "
    "two operands of a swap are distinct and a cascade has no repeated member (what the callers in fuelHandlers.py pass)",
]

KINDS = ["swap", "cascade", "dswap", "add", "remove", "ring"]  # "ring" = Core.removeAssembliesInRing (hex cores)
STATIONARY = {
    "none": ([], ()),
    "grid plate": (["GRID_PLATE"], ("grid plate",)),
    "grid plate+reflector": (["GRID_PLATE", "REFLECTOR"], ("grid plate", "reflector")),
}


# ---------------------------------------------------------------------------------------------
# strategies


def _op():
    idx = st.integers(0, 59)
    return st.fixed_dictionaries(
        {
            "k": st.integers(0, 59),  # operation kind, modulo the enabled kinds
            "a": idx,  # first operand, modulo the valid targets
            "b": idx,  # second operand / pool member
            "more": st.lists(idx, min_size=0, max_size=3),  # further cascade members
            # cascade: positions (modulo length + 1) at which a None is put into the list, as findAssembly results can be
            "none": st.one_of(st.just([]), st.lists(st.integers(0, 5), min_size=0, max_size=2)),
            "match": st.sampled_from([True, False]),  # prefer partners with the same stationary layout (else any partner)
            "charged": st.sampled_from([True, False]),  # prefer an assembly charged earlier by a discharge swap as first operand
            # incoming assembly: pool (if not empty), blueprints, or (Core.add only) an assembly purged earlier whose old
            # location is free again: put back with a plain core.add(a), the assembly keeping its (detached) locator
            "src": st.sampled_from(["pool", "fresh", "purged"]),
            # how Core.add learns the location: a locator of the core grid; no locator argument, the assembly's own
            # spatialLocator set beforehand (uniformMesh converter pattern); a detached copy; a locator of an equal but
            # different grid object ("transfer spatialLocator to Core one")
            "how": st.sampled_from(["locator", "plain", "detached", "othergrid"]),
            "design": st.integers(0, 2),
            "loc": idx,  # free location for add
            "discharge": st.sampled_from([True, False]),
            "override": st.sampled_from([False, True]),  # removeAssembliesInRing(overrideCircularRingMode=...) in hex mode
        }
    )


def strategy(tier):
    return st.fixed_dictionaries(
        {
            "spec": rg.reactor_spec(max_rings=4, max_blocks=3, min_assems=3),
            # where stationary-capable blocks sit: as drawn (any axial position), or forced into every design
            "plates": st.sampled_from(["bottom", "asis", "bottom+top", "first-design", "shifted", "asis"]),
            "track": st.sampled_from([True, False, True]),
            "stationary": st.sampled_from(["grid plate", "none", "grid plate+reflector", "grid plate"]),
            # swarm testing: a random subset of the operation kinds (half of the programs use all of them)
            "enabled": st.one_of(st.just(list(KINDS)), st.lists(st.sampled_from(KINDS), min_size=1, max_size=len(KINDS), unique=True)),
            "program": st.lists(_op(), min_size=3, max_size=14),
            # start state: the reactor as built from the blueprints, or (1 in 4) that reactor written to a real Database
            # and loaded back, as a restart / snapshot / post-processing run shuffles it (Database.load marks every
            # assembly with lastLocationLabel = Assembly.DATABASE)
            # ... or a copy.deepcopy of the built reactor (a copy has a pool iff the original has)
            "start": st.sampled_from(["built", "db-loaded", "copied", "built", "built"]),
            # stationary blocks of every second assembly are made slightly shorter before the program starts (as after an
            # axial expansion; armi's own test does the same): same index, different top elevation - _transferStationaryBlocks
            # documents that it warns and still exchanges
            "unequal": st.sampled_from([False, True]),
            # assemblies (design indices) listed in the sfp grid contents of the blueprint: a pool that has content
            # from the start, whether or not trackAssems is on
            "prepool": st.one_of(st.just([]), st.just([]), st.lists(st.integers(0, 2), min_size=1, max_size=3)),
            # the reactor has no spent fuel pool at all (del r.excore["sfp"], as armi's test_removeAssemblyNoSfp does):
            # every discharge then takes the assembly out of the model, tracked or not
            "sfpDeleted": st.sampled_from([False, True, False, False, False]),
            # the core's ring definition (setting circularRingMode); bulk removal by ring is always asked for HEX rings:
            # with the override when the core is in circular mode, with or without it otherwise
            "circular": st.sampled_from([False, True]),
        }
    )


def known_strategy(tier):
    """Cases aimed at the two known shapes (exclusion off)."""

    def nogrid(c):
        c = copy.deepcopy(c)
        c["spec"]["sfp"] = False
        c["prepool"] = []
        c["start"] = "built"
        c["track"] = True
        c["enabled"] = ["remove", "dswap"]
        for op in c["program"]:
            op["discharge"] = True
        return c

    def fresh(c):
        c = copy.deepcopy(c)
        c["spec"]["sfp"] = True
        c["prepool"] = []
        c["start"] = "built"
        c["stationary"] = "grid plate"
        c["plates"] = "bottom"
        c["enabled"] = ["dswap"]
        if len(c["spec"]["heights"]) == 1:  # a plate needs a second block above it
            c["spec"]["heights"].append(c["spec"]["heights"][0])
            for d in c["spec"]["designs"]:
                d["kinds"].append("fuel")
                d["enrich"].append(d["enrich"][0])
                d["xs"].append(d["xs"][0])
        for op in c["program"]:
            op["src"] = "fresh"
            op["match"] = True
        return c

    def fresh_untracked(c):
        c = fresh(c)
        c["track"] = False  # the outgoing assembly is purged in the same step
        return c

    def poolnames(c):
        c = copy.deepcopy(c)
        c["prepool"] = c["prepool"] or [0]
        c["enabled"] = ["dswap", "swap"]
        return c

    base = st.fixed_dictionaries(
        {
            "spec": rg.reactor_spec(max_rings=2, max_blocks=3, min_assems=3, allow_pin_grid=False),
            "plates": st.just("asis"),
            "start": st.sampled_from(["built", "built", "db-loaded"]),
            "prepool": st.lists(st.integers(0, 2), min_size=0, max_size=2),
            "track": st.sampled_from([False, True]),
            "stationary": st.sampled_from(["grid plate", "none"]),
            "enabled": st.just(["dswap"]),
            "program": st.lists(_op(), min_size=1, max_size=3),
        }
    )
    return st.tuples(st.sampled_from([fresh_untracked, nogrid, fresh, poolnames, fresh_untracked]), base).map(lambda t: t[0](t[1]))


# ---------------------------------------------------------------------------------------------
# reference model


def _dist(ij):
    return (max(abs(ij[0]), abs(ij[1]), abs(ij[0] + ij[1])), ij[0], ij[1])


class _Operator:
    """What FuelHandler reads from its operator."""

    def __init__(self, r, cs):
        self.r = r
        self.cs = cs


class _Model:
    def __init__(self, spec, stat_kinds, track):
        self.spec = spec
        self.stat_kinds = stat_kinds
        self.track = track
        self.at = {}  # (i, j) -> aid
        self.where = {}  # aid -> (i, j)
        self.pool = []  # aids
        self.purged = []  # aids
        self.limbo = []  # fresh assemblies whose charge was refused: never part of the inventory
        self.stack = {}  # aid -> [bid]
        self.kind = {}  # bid -> block kind of the blueprint
        self.A = []  # aid -> armi assembly (keeps the objects alive: id() stays unique)
        self.B = []  # bid -> armi block
        self.aid = {}  # id(assembly) -> aid
        self.bid = {}  # id(block) -> bid
        self.content = {}  # bid -> exact content record
        self.approx = {}  # bid -> ([areas], [full masses])
        self.charged_by_dswap = set()
        self.cells = []  # every location of the modelled domain within the generated number of rings
        self.templates = set()  # id() of the blueprints' template assemblies and their blocks
        self.last = {}  # aid -> core location it was taken from

    # -- geometry ----------------------------------------------------------------------------
    def factor(self, ij):
        """Documented symmetry factor of a core location (used for the position labels only)."""
        if ij is None:
            return 1.0
        spec = self.spec
        if spec["geom"].startswith("hex"):
            return 3.0 if spec["symmetry"].startswith("third") and tuple(ij) == (0, 0) else 1.0
        if spec["symmetry"].startswith("quarter"):
            if tuple(ij) == (0, 0):
                return 4.0
            if ij[0] == 0 or ij[1] == 0:
                return 2.0
        return 1.0

    def position_class(self, ij):
        f = self.factor(ij)
        return "centre" if tuple(ij) == (0, 0) else ("axis" if f != 1.0 else "interior")

    # -- registry ----------------------------------------------------------------------------
    def register(self, a, design):
        aid = len(self.A)
        self.A.append(a)
        self.aid[id(a)] = aid
        self.stack[aid] = []
        blocks = list(a)
        kinds = design["kinds"]
        if len(blocks) != len(kinds):
            raise AssertionError("harness: %d blocks built for kinds %r" % (len(blocks), kinds))
        for b, kind in zip(blocks, kinds):
            bid = len(self.B)
            self.B.append(b)
            self.bid[id(b)] = bid
            self.kind[bid] = kind
            self.stack[aid].append(bid)
            self.content[bid] = _content(b)
            self.approx[bid] = _approx(b)
        return aid

    def layout(self, aid):
        return tuple(k for k, bid in enumerate(self.stack[aid]) if self.kind[bid] in self.stat_kinds)

    def design_layout(self, design):
        return tuple(k for k, kind in enumerate(design["kinds"]) if kind in self.stat_kinds)

    def core_sorted(self):
        return sorted(self.where, key=lambda x: _dist(self.where[x]))

    def live(self):
        return sorted(self.where) + list(self.pool)

    def name(self, aid):
        ij = self.where.get(aid)
        where = "at %s" % (ij,) if ij is not None else ("in pool" if aid in self.pool else ("purged" if aid in self.purged else "outside"))
        return "a%d(%s, %s)" % (aid, self.A[aid].getName(), where)

    # -- operations --------------------------------------------------------------------------
    def exchange(self, x, y):
        """Stationary blocks keep their place and exchange assemblies; False = documented refusal."""
        lx, ly = self.layout(x), self.layout(y)
        if lx != ly:
            return False
        for k in lx:
            self.stack[x][k], self.stack[y][k] = self.stack[y][k], self.stack[x][k]
        return True

    def swap(self, x, y):
        if not self.exchange(x, y):
            return False
        px, py = self.where[x], self.where[y]
        self.where[x], self.where[y] = py, px
        self.at[px], self.at[py] = y, x
        return True

    def take_out(self, aid, to_pool):
        ij = self.where.pop(aid)
        del self.at[ij]
        self.last[aid] = ij
        (self.pool if to_pool else self.purged).append(aid)
        return ij

    def put_in(self, aid, ij):
        if aid in self.pool:
            self.pool.remove(aid)
        if aid in self.limbo:
            self.limbo.remove(aid)
        if aid in self.purged:
            self.purged.remove(aid)
        self.at[ij] = aid
        self.where[aid] = ij


def _content(b):
    from vp.model import observe as ob

    comps = []
    for c in b:
        rec = ob.component_record(c)
        comps.append(
            {
                "name": c.name,
                "class": type(c).__name__,
                "material": rec["material"],
                "Tinput": rec["Tinput"],
                "Thot": rec["Thot"],
                "dims": rec["dims"],
                "ndens": rec["ndens"],
            }
        )
    return {"class": type(b).__name__, "type": b.getType(), "height": float(b.getHeight()), "components": comps}


def _approx(b):
    """Areas and whole-assembly masses: Block.getArea/getVolume and Component.getMass divide by the block's symmetry
    factor (documented), which changes when an assembly moves on/off a symmetry line; multiplying it back gives the
    location-independent value."""
    f = float(b.getSymmetryFactor())
    return ([float(c.getArea()) for c in b] + [float(b.getArea()) * f, float(b.getVolume()) * f], [float(c.getMass()) * f for c in b])


def _close(xs, ys, rel):
    return len(xs) == len(ys) and all(abs(x - y) <= rel * max(abs(x), abs(y)) for x, y in zip(xs, ys))


# ---------------------------------------------------------------------------------------------
# the invariant, evaluated after every step


def _check(out, M, r, where, deep, ctx=None):
    ctx = ctx or {}
    """Compare armi with the model.  ``deep``: aids whose contents are compared in full (all structure is always
    compared).  ``ctx``: {default signature: signature of the known shape this step is an instance of}."""
    from vp.model import observe as ob

    core = r.core
    sfp = r.excore.get("sfp")
    grid = core.spatialGrid
    n0 = len(out.violations)

    def bad(sig, msg):
        out.fail(sig, "%s: %s" % (where, msg() if callable(msg) else msg))

    def A(a):
        aid = M.aid.get(id(a))
        return "unregistered %r" % (a,) if aid is None else M.name(aid)

    # --- core children / locations ------------------------------------------------------------
    children = list(core)
    kid = [M.aid.get(id(a)) for a in children]
    if len({id(a) for a in children}) != len(children):
        bad("core/assembly-listed-twice", lambda: "core children %s" % [A(a) for a in children])
    if sorted(x for x in kid if x is not None) != sorted(M.where) or None in kid:
        bad("inventory/core-children", lambda: "core holds %s, expected %s" % (sorted(A(a) for a in children), sorted(M.name(x) for x in M.where)))
    seen = {}
    for a, aid in zip(children, kid):
        if aid is None or aid not in M.where:
            continue
        loc = a.spatialLocator
        ij = (int(loc.i), int(loc.j))
        if a.parent is not core:
            bad("core/child-parent-not-core", lambda: "%s has parent %r" % (A(a), a.parent))
        if loc.grid is not grid or ij != M.where[aid] or int(loc.k) != 0:
            bad("location/assembly-not-where-put", lambda: "%s reports %s in grid of %r" % (A(a), tuple(loc.indices), getattr(loc.grid, "armiObject", None)))
        if ij in seen:
            bad("location/two-assemblies-one-location", lambda: "%s and %s both at %s" % (A(a), A(seen[ij]), ij))
        seen[ij] = a

    # --- lookup by location -------------------------------------------------------------------
    table = core.childrenByLocator
    keys = {}
    for key, a in table.items():
        ij = (int(key.i), int(key.j))
        if key.grid is not grid or ij in keys or int(key.k) != 0:
            bad("lookup-by-location/foreign-or-duplicate-key", lambda: "key %r -> %s" % (key, A(a)))
        keys[ij] = a
    stale = sorted(ij for ij in keys if ij not in M.at)
    missing = sorted(ij for ij in M.at if ij not in keys)
    wrong = sorted(ij for ij in M.at if ij in keys and keys[ij] is not M.A[M.at[ij]])
    if stale:
        bad("lookup-by-location/stale-entry", lambda: "childrenByLocator lists %s at empty locations" % [(ij, A(keys[ij])) for ij in stale])
    if missing:
        bad("lookup-by-location/missing-entry", lambda: "childrenByLocator has no entry for %s" % [(ij, M.name(M.at[ij])) for ij in missing])
    if wrong:
        bad("lookup-by-location/wrong-assembly", lambda: "childrenByLocator %s, expected %s" % ([(ij, A(keys[ij])) for ij in wrong], [(ij, M.name(M.at[ij])) for ij in wrong]))
    hexgrid = M.spec["geom"].startswith("hex")
    for ij in M.cells:
        label = grid.getLabel(ij)  # hex: ring-position (C07 checks that map); Cartesian: i-j
        want = M.A[M.at[ij]] if ij in M.at else None
        if want is not None and want.getLocation() != label:
            bad("location/assembly-label", lambda: "%s reports getLocation() %r, expected %r" % (A(want), want.getLocation(), label))
        if not hexgrid:
            continue  # getAssemblyWithStringLocation goes through ring/position, which Cartesian grids do not implement
        got = core.getAssemblyWithStringLocation(label)
        if got is not want:
            bad("lookup-by-location/string-location", lambda: "getAssemblyWithStringLocation(%r) for %s gives %s, expected %s" % (label, ij, None if got is None else A(got), None if want is None else A(want)))
            break

    # --- pool / purged / inventory ------------------------------------------------------------
    pooled = list(sfp) if sfp is not None else []
    pid = [M.aid.get(id(a)) for a in pooled]
    if len({id(a) for a in pooled}) != len(pooled):
        bad("pool/assembly-listed-twice", lambda: "pool %s" % [A(a) for a in pooled])
    if sorted(x for x in pid if x is not None) != sorted(M.pool) or None in pid:
        bad("inventory/pool-members", lambda: "pool holds %s, expected %s" % (sorted(A(a) for a in pooled), sorted(M.name(x) for x in M.pool)))
    for a in pooled:
        if a.parent is not sfp or a.spatialLocator.grid is not sfp.spatialGrid:
            bad("pool/member-not-located-in-pool", lambda: "%s parent %r locator grid of %r" % (A(a), a.parent, getattr(a.spatialLocator.grid, "armiObject", None)))
    both = {id(a) for a in children} & {id(a) for a in pooled}
    if both:
        bad("inventory/assembly-in-core-and-pool", lambda: "%s" % [A(a) for a in children if id(a) in both])
    for aid in M.purged + M.limbo:
        if M.A[aid].parent is not None:
            bad("inventory/removed-assembly-still-attached", lambda: "%s has parent %r" % (M.name(aid), M.A[aid].parent))

    # --- lookups by name ----------------------------------------------------------------------
    live = M.live()
    live_a = {id(M.A[x]) for x in live}
    live_b = {id(M.B[bid]) for x in live for bid in M.stack[x]}
    names = {}
    for aid in live:
        a = M.A[aid]
        nm = a.getName()
        if nm in names:
            bad("lookup-by-name/two-assemblies-one-name", lambda: "%s and %s" % (M.name(aid), M.name(names[nm])))
        names[nm] = aid
        try:
            got = core.getAssemblyByName(nm)
        except KeyError:
            got = None
        if got is not a:
            bad(ctx.get("lookup-by-name/assembly-not-found", "lookup-by-name/assembly-not-found"), lambda: "getAssemblyByName(%r) gives %s, expected %s" % (nm, None if got is None else A(got), M.name(aid)))
    bnames = {}
    for aid in live:
        for k, bid in enumerate(M.stack[aid]):
            b = M.B[bid]
            nm = b.getName()
            if nm in bnames:
                bad(ctx.get("lookup-by-name/two-blocks-one-name", "lookup-by-name/two-blocks-one-name"), lambda: "block %d of %s and another live block are both named %r" % (k, M.name(aid), nm))
            bnames[nm] = bid
            try:
                got = core.getBlockByName(nm)
            except KeyError:
                got = None
            if got is not b:
                bad(ctx.get("lookup-by-name/block-not-found", "lookup-by-name/block-not-found"), lambda: "getBlockByName(%r) (block %d of %s) gives %r" % (nm, k, M.name(aid), got))
    for aid in M.purged:
        a = M.A[aid]
        try:
            got = core.getAssemblyByName(a.getName())
        except KeyError:
            got = None
        if got is a:
            bad(ctx.get("lookup-by-name/purged-assembly-returned", "lookup-by-name/purged-assembly-returned"), lambda: "getAssemblyByName(%r) returns the purged %s" % (a.getName(), M.name(aid)))
        for bid in M.stack[aid]:
            b = M.B[bid]
            try:
                got = core.getBlockByName(b.getName())
            except KeyError:
                got = None
            if got is b:
                bad(ctx.get("lookup-by-name/purged-block-returned", "lookup-by-name/purged-block-returned"), lambda: "getBlockByName(%r) returns a block of the purged %s" % (b.getName(), M.name(aid)))
    # regenAssemblyLists() also enters the blueprints' template assemblies (getAssemblies(includeBolAssems=True)): they
    # were never part of the inventory, so they are neither "found" nor "purged"
    templates = M.templates
    for nm in sorted(core.assembliesByName):
        a = core.getAssemblyByName(nm)
        if id(a) in templates:
            continue
        if id(a) not in live_a:
            bad(ctx.get("lookup-by-name/purged-assembly-returned", "lookup-by-name/purged-assembly-returned"), lambda: "getAssemblyByName(%r) returns %s which is neither in the core nor in the pool" % (nm, A(a)))
        elif a.getName() != nm:
            bad("lookup-by-name/assembly-under-stale-name", lambda: "getAssemblyByName(%r) returns %s" % (nm, A(a)))
    for nm in sorted(core.blocksByName):
        b = core.getBlockByName(nm)
        if id(b) in templates:
            continue
        if id(b) not in live_b:
            bad(ctx.get("lookup-by-name/purged-block-returned", "lookup-by-name/purged-block-returned"), lambda: "getBlockByName(%r) returns %r which is in no assembly of the core or the pool" % (nm, b))
        elif b.getName() != nm:
            bad(ctx.get("lookup-by-name/block-under-stale-name", "lookup-by-name/block-under-stale-name"), lambda: "getBlockByName(%r) returns the block now named %r" % (nm, b.getName()))

    # --- contents -----------------------------------------------------------------------------
    for aid in live + M.purged:
        a = M.A[aid]
        blocks = list(a)
        got = [M.bid.get(id(b)) for b in blocks]
        if got != M.stack[aid]:
            bad("contents/block-stack", lambda: "%s holds blocks %s, expected %s (stationary positions %s)" % (M.name(aid), got, M.stack[aid], M.layout(aid)))
            continue
        for k, b in enumerate(blocks):
            loc = b.spatialLocator
            if b.parent is not a or loc.grid is not a.spatialGrid or int(loc.k) != k:
                bad("contents/block-not-located-in-its-assembly", lambda: "block %d of %s: parent %r, locator %r in grid of %r" % (k, M.name(aid), b.parent, loc, getattr(loc.grid, "armiObject", None)))
        if aid not in deep:
            continue
        for k, (b, bid) in enumerate(zip(blocks, got)):
            d = ob.diff(M.content[bid], _content(b), limit=2)
            if d:
                bad("contents/block-changed", lambda: "block %d of %s: %s" % (k, M.name(aid), "; ".join(d)))
                continue
            areas, masses = _approx(b)
            was = M.approx[bid][0]
            if aid not in M.where:
                # outside the core only the component areas are compared: Block.getArea is documented as "consistent with
                # the area in the model" and is cached; nothing says what it is for an assembly that left the core (it
                # keeps the value it had at its last core location: recorded as an observation, not asserted)
                areas, was = areas[:-2], was[:-2]
            if not _close(areas, was, 1e-12):
                bad("contents/area-or-volume", lambda: "block %d of %s: component areas + [block area, block volume] x symmetry factor %r, were %r" % (k, M.name(aid), areas, was))
            if not _close(masses, M.approx[bid][1], 1e-10):
                bad("contents/component-mass", lambda: "block %d of %s: masses x symmetry factor %r = %r, were %r" % (k, M.name(aid), b.getSymmetryFactor(), masses, M.approx[bid][1]))
    return len(out.violations) == n0


# ---------------------------------------------------------------------------------------------
# interpreter


def _pick(seq, n):
    return seq[n % len(seq)]


def _apply_plates(spec, mode):
    spec = copy.deepcopy(spec)
    nb = len(spec["heights"])
    for n, d in enumerate(spec["designs"]):
        if mode == "first-design" and nb >= 2 and n == 0 and "grid plate" not in d["kinds"]:
            d["kinds"][0] = "grid plate"  # layouts differ between designs: refusals
        if mode == "shifted" and nb >= 2:
            # one grid plate per design, at a different height in each design: same count, different positions
            d["kinds"] = ["fuel" if k == "grid plate" else k for k in d["kinds"]]
            d["kinds"][n % nb] = "grid plate"
        if mode in ("bottom", "bottom+top") and nb >= 2:
            d["kinds"][0] = "grid plate"
        if mode == "bottom+top" and nb >= 3:
            d["kinds"][-1] = "grid plate"
            if d["kinds"][1] == "grid plate":
                d["kinds"][1] = "fuel"
    return spec


def _with_pool_contents(text, specifiers):
    """The blueprint text of vp.gen.reactor with assemblies listed in the sfp grid (as armi's refSmallSfpGrid.yaml does)."""
    anchor = "    sfp:\n        geom: cartesian\n        symmetry: full\n        lattice pitch: {x: 50.0, y: 50.0}\n"
    if text.count(anchor) != 1:
        raise AssertionError("harness: sfp grid section of the shared generator changed")
    lines = ["        grid contents:"] + ["            [%d,0]: %s" % (n, sp) for n, sp in enumerate(specifiers)]
    return text.replace(anchor, anchor + "\n".join(lines) + "\n")


def _through_database(cs, bp, r):
    """Write the reactor with a real Database and return the reactor loaded from it (what Database.load gives a restart:
    nothing is called on it afterwards; the pool is empty at this point, so no pool assembly needs a name lookup yet)."""
    import os

    from armi.bookkeeping.db.database import Database

    fn = "c14_%d.h5" % os.getpid()  # relative: created in the fast path, moved to the scratch cwd on close
    if os.path.exists(fn):
        os.remove(fn)
    cyc, node = int(r.p.cycle), int(r.p.timeNode)
    db = Database(fn, "w")
    db.open()
    try:
        db.writeToDB(r)
        return db.load(cyc, node, cs=cs, bp=bp)
    finally:
        db.close(True)
        if os.path.exists(fn):
            os.remove(fn)


def _execute(case, exclude):
    from armi.physics.fuelCycle import fuelHandlers

    out = Out()
    spec = _apply_plates(case["spec"], case["plates"])
    track = bool(case["track"])
    flags, stat_kinds = STATIONARY[case["stationary"]]
    no_pool = bool(case.get("sfpDeleted", False))
    if track and not spec.get("sfp") and not no_pool and exclude.get(SIG_NOGRID):
        spec["sfp"] = True
        out.label("excluded:" + SIG_NOGRID)
    prepool = [] if no_pool else [d % len(spec["designs"]) for d in case.get("prepool", [])]
    text = None
    if prepool:
        spec["sfp"] = True  # contents need the explicit pool grid
        text = _with_pool_contents(rg.render(spec), [spec["designs"][d]["specifier"] for d in prepool])
    circular = bool(case.get("circular", False))
    cs, bp, r = rg.build(spec, {"trackAssems": track, "stationaryBlockFlags": list(flags), "circularRingMode": circular}, text=text)
    if case.get("unequal", False) and stat_kinds:
        kinds_at = {(c[0], c[1]): spec["designs"][c[2]]["kinds"] for c in spec["cells"]}
        shortened = 0
        for n, a in enumerate(sorted(r.core, key=lambda x: _dist((int(x.spatialLocator.i), int(x.spatialLocator.j))))):
            if n % 2 == 0:
                continue
            kinds = kinds_at[(int(a.spatialLocator.i), int(a.spatialLocator.j))]
            for b, kind in zip(list(a), kinds):
                if kind in stat_kinds:
                    b.setHeight(b.getHeight() * 0.999)
                    shortened += 1
            a.calculateZCoords()
        if shortened:
            out.label("stationary-heights:unequal")
    start = case.get("start", "built")
    if start == "db-loaded":
        r = _through_database(cs, bp, r)
    elif start == "copied":
        r = copy.deepcopy(r)
    out.label("start:" + start)
    if no_pool:
        r.excore["sfp"] = None
        del r.excore["sfp"]
    core = r.core
    sfp = r.excore.get("sfp")
    if sfp is None and not no_pool:
        # every reactor of reactors.factory has a pool (explicit or default); Database.load and copy.deepcopy must keep it
        out.fail("inventory/reactor-lost-its-spent-fuel-pool", "start state %r: r.excore.get('sfp') is None, excore holds %r" % (start, sorted(r.excore)))
        return out
    fh = fuelHandlers.FuelHandler(_Operator(r, cs))
    nogrid = track and sfp is not None and sfp.spatialGrid is None

    known_shape = False
    M = _Model(spec, stat_kinds, track)
    if spec["geom"].startswith("hex"):
        M.cells = [tuple(c) for c in rg.hex_cells(spec["rings"], spec["symmetry"])]
    else:
        M.cells = [tuple(c) for c in rg.cart_cells(spec["rings"], spec["symmetry"])]
    design_at = {(c[0], c[1]): spec["designs"][c[2]] for c in spec["cells"]}
    for a in core:
        ij = (int(a.spatialLocator.i), int(a.spatialLocator.j))
        aid = M.register(a, design_at[ij])
        M.at[ij] = aid
        M.where[aid] = ij
    init_ctx = None
    if prepool:
        stored = {(int(a.spatialLocator.i), int(a.spatialLocator.j)): a for a in sfp}
        if sorted(stored) != [(n, 0) for n in range(len(prepool))]:
            raise AssertionError("harness: pool not filled as specified: %r" % (sorted(stored),))
        for n, d in enumerate(prepool):
            M.pool.append(M.register(stored[(n, 0)], spec["designs"][d]))
        out.label("pool:pre-populated", "pool:pre-populated-track-" + ("on" if track else "off"))
        if exclude.get(SIG_POOLNAMES):
            out.label("excluded:" + SIG_POOLNAMES)
            core.regenAssemblyLists()  # what armi.testing.loadTestReactor does for the same reason
        else:
            init_ctx = {"lookup-by-name/assembly-not-found": SIG_POOLNAMES, "lookup-by-name/block-not-found": SIG_POOLNAMES}
            known_shape = True
    for t in r.blueprints.assemblies.values():
        M.templates.add(id(t))
        M.templates.update(id(b) for b in t)
    if len(M.where) != len(spec["cells"]):
        raise AssertionError("harness: %d assemblies built for %d cells" % (len(M.where), len(spec["cells"])))
    # What the core designates as stationary is behaviour of the code under test ("Blocks with these flags will not move in
    # moves"): the model takes the designation from the settings the case specified, so a core that designates something
    # else is also reported by the ordinary oracle after the first swap (blocks not designated stationary move with
    # their assembly); the direct comparison names the cause.
    designated = sorted(str(f).replace("Flags.", "") for f in core.stationaryBlockFlagsList)
    out.check(designated == sorted(flags), "stationary/designation-differs-from-settings",
              lambda: "stationaryBlockFlags %r in the settings, the core designates %r" % (list(flags), designated))

    out.label("geom:" + spec["geom"], "sym:" + spec["symmetry"].split()[0], "track:" + ("on" if track else "off"),
              "stationary:" + case["stationary"], "sfp:" + ("deleted-track-" + ("on" if track else "off") if no_pool else ("explicit" if spec.get("sfp") else "default")),
              "rings:%d" % spec["rings"], "assemblies:%s" % ("<=6" if len(M.where) <= 6 else ("7-19" if len(M.where) <= 19 else "20+")),
              "plates:" + case["plates"])
    if not _check(out, M, r, "initial state", set(M.live()), init_ctx):
        out.nontrivial = exclude is _NO_EXCLUSION and known_shape
        return out

    # bulk removal gets half the weight of the other kinds
    enabled = [k for k in KINDS if k in case["enabled"] for _ in range(1 if k == "ring" else 2)]
    executed = 0
    dswap_done = False
    touched_charged = False
    nsteps = len(case["program"])

    other_grid = [None]
    # the shape of the fixed finding: a tracked discharge without a pool (attribution of the purged-lookup clauses)
    nosfp_ctx = {"lookup-by-name/purged-assembly-returned": SIG_NOSFP, "lookup-by-name/purged-block-returned": SIG_NOSFP}

    def fresh(design):
        a = core.createAssemblyOfType(assemType=design["name"], cs=cs)
        aid = M.register(a, design)
        M.limbo.append(aid)
        return aid

    def pos_labels(*aids):
        for x in aids:
            if x in M.where:
                out.label("pos:" + M.position_class(M.where[x]))

    for step, op in enumerate(case["program"]):
        kind = _pick(enabled, op["k"])
        if kind == "ring" and not spec["geom"].startswith("hex"):
            kind = "remove"  # "a ring in cartesian is basically a square" is not a definition the model can follow
        cands = M.core_sorted()
        touched = set()
        ctx = None
        desc = kind

        plan = None
        if kind == "dswap":
            x = _pick(cands, op["a"])
            lay = M.layout(x)

            def from_pool():
                pool = list(M.pool)
                if op["match"]:
                    pool = [p for p in pool if M.layout(p) == lay] or pool
                y = _pick(pool, op["b"])
                return (x, y, M.layout(y) != lay, "pool")

            if op["src"] != "fresh" and M.pool:
                plan = from_pool()
            else:
                designs = list(spec["designs"])
                if op["match"]:
                    designs = [d for d in designs if M.design_layout(d) == lay] or designs
                design = _pick(designs, op["design"])
                plan = (x, design, M.design_layout(design) != lay, "fresh")
                if not plan[2] and lay and exclude.get(SIG_FRESH):
                    # known shape, avoided by construction: charge from the pool instead, or (empty pool) only discharge
                    out.label("excluded:" + SIG_FRESH)
                    if M.pool:
                        plan = from_pool()
                    else:
                        kind = "remove"
                        plan = (x, True)

        if kind in ("swap", "cascade"):
            if len(cands) < 2:
                out.label("skip:too-few-assemblies")
                continue
            first = cands
            if op["charged"]:
                first = [c for c in cands if c in M.charged_by_dswap] or cands
            x = _pick(first, op["a"])
            rest = [c for c in cands if c != x]
            if op["match"]:
                same = [c for c in rest if M.layout(c) == M.layout(x)]
                rest = same or rest
            members = [x]
            picks = [op["b"]] + (list(op["more"]) if kind == "cascade" else [])
            for n in picks:
                if not rest:
                    break
                y = _pick(rest, n)
                rest.remove(y)
                members.append(y)
            pos_labels(*members)
            # A cascade list may hold None where a findAssembly call found nothing: swapCascade skips such a level ("Skipping
            # level ... because it is None") and swapAssemblies skips a swap with a None operand ("Cannot swap None
            # assemblies ... Skipping swap"); so a leading None moves nothing, any other None is passed over.
            seq = list(members)
            if kind == "cascade":
                for pos in op.get("none", []):
                    seq.insert(pos % (len(seq) + 1), None)
                if None in seq:
                    inner = [i for i, m in enumerate(seq) if m is None and 0 < i < len(seq) - 1 and any(t is not None for t in seq[i + 1:])]
                    out.label("cascade:none-" + ("leading" if seq[0] is None else ("interior" if inner else "trailing")))
            desc = "%s(%s)" % (kind, ", ".join("None" if m is None else M.name(m) for m in seq))
            exchanged = 0
            refuse = False
            done = []
            for y in ([] if seq[0] is None else seq[1:]):
                if y is None:
                    continue
                n = len(M.layout(x))
                if not M.swap(x, y):
                    refuse = True
                    break
                exchanged = max(exchanged, n)
                done.append(y)
            touched.update(members)
            objs = [None if m is None else M.A[m] for m in seq]
            raised = False
            try:
                if kind == "swap":
                    fh.swapAssemblies(objs[0], objs[1])
                else:
                    fh.swapCascade(objs)
            except ValueError:
                if not refuse:
                    raise
                raised = True
            if refuse and not raised:
                out.fail("refusal/different-stationary-layouts-accepted",
                         "step %d %s: layouts %s, no ValueError" % (step, desc, [None if m is None else M.layout(m) for m in seq]))
                return out
            out.label("op:" + kind, "refused" if refuse else "exchange:%s" % ("0" if exchanged == 0 else ("1" if exchanged == 1 else "2+")))
            if kind == "cascade":
                out.label("cascade:%d" % len(members))
            if done and (M.charged_by_dswap & ({x} | set(done))):
                touched_charged = True
                out.label("swap-touches-charged")

        elif kind == "dswap":
            x, incoming, refuse, source = plan
            lay = M.layout(x)
            if source == "fresh":
                if not refuse and lay:
                    ctx = {k: SIG_FRESH for k in ("lookup-by-name/two-blocks-one-name", "lookup-by-name/block-not-found",
                                                  "lookup-by-name/block-under-stale-name")}
                    known_shape = True
                incoming = fresh(incoming)
            pos_labels(x)
            desc = "dischargeSwap(incoming %s from %s, outgoing %s)" % (M.name(incoming), source, M.name(x))
            touched.update((x, incoming))
            raised = False
            try:
                fh.dischargeSwap(M.A[incoming], M.A[x])
            except ValueError:
                if not refuse:
                    raise
                raised = True
            except AttributeError:
                if not (nogrid and not refuse):
                    raise
                out.fail(SIG_NOGRID, "step %d %s: the default spent-fuel pool (no sfp system in the blueprints) has no spatial grid "
                         "and cannot receive the discharged assembly; it has left the core and is in no container" % (step, desc))
                out.nontrivial = True
                return out
            if refuse and not raised:
                out.fail("refusal/different-stationary-layouts-accepted",
                         "step %d %s: layouts %s vs %s, no ValueError" % (step, desc, M.layout(incoming), lay))
                return out
            if not refuse:
                M.exchange(incoming, x)
                ij = M.take_out(x, to_pool=track and not no_pool)
                if track and no_pool:
                    ctx = dict(ctx or {}, **nosfp_ctx)
                M.put_in(incoming, ij)
                M.charged_by_dswap.add(incoming)
                dswap_done = True
            out.label("op:dswap", "dswap:" + source, "refused" if refuse else "exchange:%s" % ("0" if not lay else ("1" if len(lay) == 1 else "2+")))
            if not refuse and lay:
                out.label("dswap:%s-with-exchange" % source)

        elif kind == "add":
            free = [c for c in M.cells if c not in M.at]
            if not free:
                out.label("skip:no-free-location")
                continue
            ij = _pick(sorted(free, key=_dist), op["loc"])
            how = op.get("how", "locator")
            back = [p for p in M.purged if M.last[p] in free] if op["src"] == "purged" else []
            if back:
                # remove and put back: the purged assembly still carries the (detached) locator of its old place
                aid = _pick(back, op["b"])
                ij = M.last[aid]
                source, how = "purged", "own-locator"
            elif op["src"] == "pool" and M.pool:
                aid = _pick(M.pool, op["b"])
                source = "pool"
                sfp.remove(M.A[aid])  # as dischargeSwap does before Core.add
            else:
                aid = fresh(_pick(spec["designs"], op["design"]))
                source = "fresh"
            desc = "Core.add(%s from %s, %s, %s)" % (M.name(aid), source, ij, how)
            touched.add(aid)
            here = core.spatialGrid[ij[0], ij[1], 0]
            if how == "own-locator":
                core.add(M.A[aid])
            elif how == "plain":
                M.A[aid].spatialLocator = here
                core.add(M.A[aid])
            elif how == "detached":
                core.add(M.A[aid], here.detachedCopy())
            elif how == "othergrid":
                if other_grid[0] is None:
                    other_grid[0] = bp.gridDesigns["core"].construct()  # the grid a second reactor of this input has
                core.add(M.A[aid], other_grid[0][ij[0], ij[1], 0])
            else:
                core.add(M.A[aid], here)
            M.put_in(aid, ij)
            out.label("op:add", "add:" + source, "add-how:" + how, "pos:" + M.position_class(ij))

        elif kind == "ring":
            # Core.removeAssembliesInRing: every assembly of the ring is discharged (removeAssembly default), then
            # processLoading(cs).  Hex ring = hex distance from the centre + 1 (the model's own geometry); with the
            # core in circular ring mode the caller passes the documented override ("you know you don't want to use the
            # circular ring mode, and instead want square or hex").
            rings = sorted({_dist(M.where[c])[0] + 1 for c in cands})
            rings = [n for n in rings if any(_dist(M.where[c])[0] + 1 != n for c in cands)]  # something stays
            if not rings:
                out.label("skip:single-ring")
                continue
            ring = _pick(rings, op["a"])
            members = [c for c in cands if _dist(M.where[c])[0] + 1 == ring]
            override = True if circular else bool(op.get("override", False))
            desc = "removeAssembliesInRing(%d, overrideCircularRingMode=%s) [circularRingMode %s; %s]" % (
                ring, override, circular, ", ".join(M.name(m) for m in members))
            pos_labels(*members)
            touched.update(members)
            core.removeAssembliesInRing(ring, cs, overrideCircularRingMode=override)
            for m in members:
                M.take_out(m, to_pool=track and not no_pool)
            if track and no_pool:
                ctx = dict(nosfp_ctx)
            out.label("op:ring", "ring:%s%s" % ("circular-mode+override" if circular else "hex-mode", "+override" if override and not circular else ""),
                      "ring:n%d" % min(ring, 4))

        elif kind == "remove":
            if len(cands) <= 1:
                out.label("skip:too-few-assemblies")
                continue
            x, discharge = plan or (_pick(cands, op["a"]), bool(op["discharge"]))
            pos_labels(x)
            desc = "removeAssembly(%s, discharge=%s)" % (M.name(x), discharge)
            touched.add(x)
            try:
                core.removeAssembly(M.A[x], discharge=discharge)
            except AttributeError:
                if not (nogrid and discharge):
                    raise
                out.fail(SIG_NOGRID, "step %d %s: the default spent-fuel pool (no sfp system in the blueprints) has no spatial grid "
                         "and cannot receive the discharged assembly; it has left the core and is in no container" % (step, desc))
                out.nontrivial = True
                return out
            M.take_out(x, to_pool=discharge and track and not no_pool)
            if discharge and track and no_pool:
                ctx = dict(nosfp_ctx)
            out.label("op:remove", "remove:" + ("no-pool-tracked" if discharge and track and no_pool else ("to-pool" if discharge and track else ("purge" if not discharge else "discharge-untracked"))))

        executed += 1
        last = step == nsteps - 1
        deep = set(M.live()) | set(M.purged) if last else touched
        if not _check(out, M, r, "after step %d %s" % (step, desc), deep, ctx):
            break

    if out.violations == [] and executed:
        _check(out, M, r, "final state", set(M.live()) | set(M.purged))
    out.label("ops:%d" % min(executed, 8))
    if M.pool:
        out.label("pool-occupied")
    out.nontrivial = known_shape if exclude is _NO_EXCLUSION else (executed >= 3 and dswap_done and touched_charged)
    return out


_NO_EXCLUSION = {}


# ---------------------------------------------------------------------------------------------
# part "replay": an outage recorded by armi and repeated through explicitRepeatShuffles


def replay_strategy(tier):
    op = st.fixed_dictionaries(
        {
            "kind": st.sampled_from(["swap", "cascade", "cascade", "dswap"]),
            "a": st.integers(0, 59),
            "b": st.integers(0, 59),
            "more": st.lists(st.integers(0, 59), min_size=0, max_size=3),
            "design": st.integers(0, 2),
        }
    )
    return st.fixed_dictionaries(
        {
            "spec": rg.reactor_spec(geoms=("hex", "hex_corners_up"), max_rings=3, max_blocks=2, min_assems=3, allow_pin_grid=False),
            "stationary": st.sampled_from(["none", "grid plate"]),
            "program": st.lists(op, min_size=1, max_size=6),
        }
    )


def _load_model(spec, stat_kinds, r):
    M = _Model(spec, stat_kinds, True)
    M.cells = [tuple(c) for c in rg.hex_cells(spec["rings"], spec["symmetry"])]
    design_at = {(c[0], c[1]): spec["designs"][c[2]] for c in spec["cells"]}
    for a in r.core:
        ij = (int(a.spatialLocator.i), int(a.spatialLocator.j))
        aid = M.register(a, design_at[ij])
        M.at[ij] = aid
        M.where[aid] = ij
    for t in r.blueprints.assemblies.values():
        M.templates.add(id(t))
        M.templates.update(id(b) for b in t)
    return M


def replay_execute(case):
    """Outage 1: a generated program of swaps / cascades / discharge swaps through FuelHandler.outage(), recorded by armi
    (Core.setMoveList) and written with FuelHandlerInterface.makeShuffleReport.  Outage 2: an identical fresh reactor repeats
    it through the explicitRepeatShuffles setting (outage -> repeatShufflePattern -> readMoves / processMoveList /
    doRepeatShuffle).  The repeated core must hold, location by location, the assembly the original outage put there."""
    import os

    from armi.physics.fuelCycle import fuelHandlerInterface, fuelHandlers

    out = Out()
    spec = _apply_plates(case["spec"], "bottom" if case["stationary"] != "none" else "asis")
    spec["sfp"] = True
    flags, stat_kinds = STATIONARY[case["stationary"]]
    settings = {"trackAssems": True, "stationaryBlockFlags": list(flags), "nCycles": 2}
    cs, bp, r = rg.build(spec, settings)
    M = _load_model(spec, stat_kinds, r)
    n_initial = len(M.A)
    fresh_designs = []
    counts = {"swap": 0, "cascade": 0, "dswap": 0}

    class Recorded(fuelHandlers.FuelHandler):
        def chooseSwaps(self, shuffleFactors=None):
            for op in case["program"]:
                cands = M.core_sorted()
                kind = op["kind"]
                x = _pick(cands, op["a"])
                if kind == "dswap":
                    # the outgoing assembly is one that started the outage in the core: an assembly charged and discharged
                    # within one outage is a "dummy move" the repeat documents it skips
                    old = [c for c in cands if c < n_initial]
                    if not old:
                        continue
                    x = _pick(old, op["a"])
                    designs = [d for d in spec["designs"] if M.design_layout(d) == M.layout(x)]
                    if not designs or M.layout(x):
                        continue  # a fresh charge with a stationary exchange is the known finding; layouts must agree
                    design = _pick(designs, op["design"])
                    a = r.core.createAssemblyOfType(assemType=design["name"], cs=cs)
                    aid = M.register(a, design)
                    fresh_designs.append(design)
                    self.dischargeSwap(a, M.A[x])
                    M.put_in(aid, M.take_out(x, to_pool=True))
                    counts["dswap"] += 1
                    continue
                rest = [c for c in cands if c != x and M.layout(c) == M.layout(x)]
                members = [x]
                for n in [op["b"]] + (list(op["more"]) if kind == "cascade" else []):
                    if rest:
                        y = _pick(rest, n)
                        rest.remove(y)
                        members.append(y)
                if len(members) < 2:
                    continue
                for y in members[1:]:
                    M.swap(x, y)
                if kind == "swap":
                    self.swapAssemblies(M.A[members[0]], M.A[members[1]])
                else:
                    self.swapCascade([M.A[m] for m in members])
                counts[kind] += 1

    fname = os.path.abspath(cs.caseTitle + "-SHUFFLES.txt")
    if os.path.exists(fname):
        os.remove(fname)
    try:
        r.core.locateAllAssemblies()
        Recorded(_Operator(r, cs)).outage()
        if not _check(out, M, r, "original outage", set(M.live())):
            return out
        fuelHandlerInterface.FuelHandlerInterface(r, cs).makeShuffleReport()
        with open(fname) as f:
            record = f.read()

        cs2, bp2, r2 = rg.build(spec, dict(settings, explicitRepeatShuffles=fname))
        M2 = _load_model(spec, stat_kinds, r2)
        names = {aid: M.A[aid].getName() for aid in range(len(M.A))}
        if [M2.A[aid].getName() for aid in range(n_initial)] != [names[aid] for aid in range(n_initial)]:
            raise AssertionError("harness: the second reactor does not start like the first")
        r2.core.locateAllAssemblies()
        fuelHandlers.FuelHandler(_Operator(r2, cs2)).outage()
    finally:
        if os.path.exists(fname):
            os.remove(fname)

    # The expected state of the repeated reactor is the model of the original outage, object for object: assemblies that
    # started in the core are identified by name (both reactors are built alike); a charged assembly is identified by where
    # it sits and by its type (the repeat creates its own fresh assemblies, in its own order, so their names are not promised).
    at2 = {(int(a.spatialLocator.i), int(a.spatialLocator.j)): a for a in r2.core}

    def seen(ij):
        a = at2.get(ij)
        return None if a is None else (a.getName() if id(a) in M2.aid else "new " + a.getType())

    want = {ij: (names[aid] if aid < n_initial else "new " + fresh_designs[aid - n_initial]["name"]) for ij, aid in M.at.items()}
    got = {ij: seen(ij) for ij in at2}
    if got != want:
        diff = sorted(ij for ij in set(got) | set(want) if got.get(ij) != want.get(ij))
        out.fail("replay/repeated-outage-puts-assemblies-elsewhere", "locations %s: original outage %s, repeated %s\nrecord:\n%s" % (
            diff, [want.get(ij) for ij in diff], [got.get(ij) for ij in diff], record))
        return out
    for aid in range(n_initial, len(M.A)):
        M2.register(at2[M.where[aid]], fresh_designs[aid - n_initial])
    M2.at, M2.where, M2.pool = dict(M.at), dict(M.where), list(M.pool)
    M2.stack = {aid: list(bids) for aid, bids in M.stack.items()}
    _check(out, M2, r2, "repeated outage", set(M2.live()))
    moved = sum(counts.values())
    out.label("geom:" + spec["geom"], "sym:" + spec["symmetry"].split()[0], "stationary:" + case["stationary"],
              *["op:%s" % k for k, v in counts.items() for _ in range(v)])
    if counts["swap"] + counts["cascade"]:
        out.label("has-loop")
    if counts["dswap"]:
        out.label("has-charge")
    out.nontrivial = moved >= 2 and counts["swap"] + counts["cascade"] >= 1
    return out


def execute(case):
    return _execute(case, EXCLUDE_KNOWN)


def known_execute(case):
    out = _execute(case, _NO_EXCLUSION)
    if any(sig == SIG_NOGRID for sig, _ in out.violations):
        out.nontrivial = True
    return out


PARTS = [
    Part("replay", replay_execute, strategy=replay_strategy, budget={"quick": 40, "thorough": 1500}, procs={"quick": 2, "thorough": 8},
         rule="Hypothesis: hex core (third/full, <= 3 rings) x stationary {none, grid plate at the bottom of every design} x program of <= 6 "
              "swaps / cascades / discharge swaps (fresh) run inside FuelHandler.outage(); armi's own move record is written with "
              "makeShuffleReport and an identical fresh reactor repeats it through explicitRepeatShuffles; oracle: the repeated core "
              "holds at every location the assembly the original outage put there (by name), then the full C14 state oracle on the "
              "repeated reactor against the model of the original outage; non-trivial = >= 2 operations incl. an in-core loop"),
    Part("programs", execute, strategy=strategy, budget={"quick": 360, "thorough": 12000}, procs={"quick": 6, "thorough": 16},
         rule="Hypothesis: blueprint-built core (hex third/full flats/corners up, Cartesian full/quarter, 2-4 rings, holes, 1-3 designs of "
              "1-3 blocks, grid plates/reflectors at any axial position or forced to the bottom / bottom+top, SFP explicit or default) x "
              "start state {as built, written to a Database and loaded back, copy.deepcopy of the built reactor} x stationary blocks of "
              "equal / slightly unequal height x {pool present, 1 in 5: deleted from the reactor} x "
              "trackAssems on/off x stationaryBlockFlags {none, grid plate, grid plate+reflector} x program of <= 14 operations drawn "
              "from a random subset of {swapAssemblies, swapCascade(2-5 members), dischargeSwap(fresh|pool), Core.add(fresh|pool|purged "
              "put back; locator of the core grid / of an equal grid / detached / none) at a "
              "free location, removeAssembly(discharge True|False), removeAssembliesInRing (hex cores; circularRingMode on with the override, off "
              "with/without it)}, operands modulo the valid targets (centre first), cascade lists "
              "optionally with None entries, pool optionally pre-populated through the sfp grid contents (also with tracking off); oracle = "
              "location/pool/purged/block-stack model compared after every step (children, locators, childrenByLocator, string "
              "location lookup, name lookups incl. purged, inventory, contents), refusals must raise and leave the model state; "
              "non-trivial = >= 3 executed operations incl. a discharge swap and a later swap/cascade moving the charged assembly"),
    Part("known_shapes", known_execute, strategy=known_strategy, budget={"quick": 80, "thorough": 600}, procs={"quick": 2, "thorough": 4},
         rule="the three shapes the main search excludes by construction, generated with the exclusion off: (a) trackAssems on with the "
              "default grid-less SFP and a discharge; (b) dischargeSwap of a fresh blueprint assembly with a non-empty stationary "
              "exchange (tracking on and off); (c) a pool pre-populated by the blueprints (or restored by Database.load) without "
              "regenAssemblyLists(); same oracle, every other signature is still reported; non-trivial = the shape occurred"),
]
