"""C05 - every parameter value shape survives database encoding and decoding.

Layers
------
l0_sentinel   layout.replaceNonesWithNonsense -> replaceNonsenseWithNones (pure, in memory)
l0_pack       packSpecialData / JaggedArray -> real HDF5 dataset + attributes -> unpackSpecialData
l1_database   probe Composite subclass -> real Database._writeParams -> HDF5 group -> Database._readParams
flags         FlagSerializer._packImpl -> HDF5 -> _unpackImpl between two fresh Flag classes

A *column* is the list of values that one parameter has on the objects of one type.  Columns are generated as
plain data (``{"cls", "dt", "e": [...]}``) and materialised by ``build_column``.

Oracle: ``norm(read) == norm(written)`` where ``norm`` applies exactly the documented normalisations:

* sequences (list / tuple / ndarray) come back as arrays: compared by (kind, shape, values),
* a scalar stored in a column that also holds sequences comes back as a 1-element array
  (armi/bookkeeping/db/tests/test_jaggedArray.py::_compareArrays),
* an entry whose inner lists are themselves ragged comes back flattened to 1-D (JaggedArray docstring),
* an empty sequence comes back unset,
* NaN is the unset marker for reals (a real sequence consisting only of NaN is therefore unset; NaN inside a
  dictionary means "key absent"),
* a column that is unset everywhere is not stored at all.

An exception raised while *writing* is a rejection (allowed); an exception or a difference while *reading* is a
violation.
"""
import math
import os

from hypothesis import strategies as st

from vp.runner import Out, Part

PROPERTY = "C05"
LEVEL = "exploration"
ASSUMPTIONS = [
    "numeric kind = bool / integer / real / string (the width of a NumPy scalar is not part of the contract: "
    "Database._readParams hands values back through ndarray.tolist())",
    "real values are compared with == after mapping NaN to 'unset' (so -0.0 equals 0.0); integers and strings exactly",
    "the documented integer placeholder (iinfo.min+2 for signed, iinfo.max-2 for unsigned kinds, layout.NONE_MAP) "
    "is not generated as a value in columns that go through the placeholder scheme (layout.py: 'we assume no one "
    "assigns min(int)+2 as a meaningful value')",
    "one column has one numeric kind; columns mixing kinds are a separate class judged by numerical equality only, "
    "with integers bounded by 2**53 so that NumPy's own int->float promotion is exact",
    "strings are printable ASCII or Latin-1/BMP text without NUL (NumPy fixed-width strings cannot hold trailing NUL)",
    "flag classes mix auto() and explicit single-bit values such that bit positions are dense overall (what "
    "Flag.width()/to_bytes and FlagSerializer._remapBits need; as armi.reactor.flags.Flags and defineFlags plugins do)",
    "l2_reactor keeps integers below 2**63: Database._readParams hands Python lists to the parameter setters and the "
    "ndarray setters of real parameters (np.array(value)) turn a mix of int64- and uint64-sized ints into float64; that "
    "is the setter's doing, not the encoding (l0/l1 cover the whole uint64 range)",
    "Python ints that need uint64 are generated only as scalar columns where every value is >= 2**63 (NumPy types nested "
    "lists entry by entry, and np.array() of a mix of int64- and uint64-sized ints is float64 before armi sees it)",
]

# signatures of candidate genuine defects (AUTHORING rule 3); True = the main generators skip the triggering shape
SIG_UNSIGNED = "sentinel/unsigned-none-marker-mismatch"
SIG_CAST_FIRST = "sentinel/column-cast-to-first-entry-type"
SIG_NPSCALAR = "jagged/numpy-scalar-entry-dropped"
SIG_INNER = "jagged/inner-ragged-shape-not-a-tuple"
# SIG_UNSIGNED, SIG_NPSCALAR, SIG_INNER were repaired in /repo (fix: commits 94abe09, 49e27f7, 15eebec): searched again; SIG_CAST_FIRST is a known finding
EXCLUDE_KNOWN = {SIG_UNSIGNED: False, SIG_CAST_FIRST: True, SIG_NPSCALAR: False, SIG_INNER: False}
if os.environ.get("VP_C05_NOEXCLUDE"):  # debugging aid: "all" or a comma-separated list of signatures to search again
    _which = os.environ["VP_C05_NOEXCLUDE"]
    for _k in EXCLUDE_KNOWN:
        if _which == "all" or _k in _which.split(","):
            EXCLUDE_KNOWN[_k] = False

# --------------------------------------------------------------------------------------------
# data kinds

_INT_RANGES = {
    "int8": (-(2**7), 2**7 - 1),
    "int16": (-(2**15), 2**15 - 1),
    "int32": (-(2**31), 2**31 - 1),
    "int64": (-(2**63), 2**63 - 1),
    "uint8": (0, 2**8 - 1),
    "uint16": (0, 2**16 - 1),
    "uint32": (0, 2**32 - 1),
    "uint64": (0, 2**64 - 1),
    "py:int": (-(2**63), 2**63 - 1),
    "py:big": (2**63, 2**64 - 1),  # Python ints that only fit uint64 (NumPy makes float64 of a mix with smaller ones)
}
_FLOAT_WIDTH = {"py:float": 64, "float64": 64, "float32": 32, "float16": 16}
_BOOLS = ("py:bool", "bool")
_STRS = ("py:str", "str")
_NUMERIC_DT = list(_INT_RANGES) + list(_FLOAT_WIDTH) + list(_BOOLS)
_ALL_DT = _NUMERIC_DT + list(_STRS)

_ASCII = "".join(chr(c) for c in range(32, 127))


def _weighted(*pairs):
    """one_of with weights (Hypothesis' one_of drops repeated branches, so repetition does not weight)."""
    strats = [s_ for _w, s_ in pairs]
    index = [i for i, (w, _s) in enumerate(pairs) for _ in range(w)]
    return st.sampled_from(index).flatmap(lambda i: strats[i])


_text = _weighted(
    (4, st.text(alphabet=_ASCII, max_size=8)),
    (2, st.text(alphabet="abc <!None>", max_size=9)),
    (2, st.sampled_from(["", " ", "a", "<!None!>", "fuel", "A1"])),
    # text that ASCII byte strings cannot hold (Latin-1 supplement, BMP symbols, astral): to be refused at write time,
    # never stored as something else
    (1, st.sampled_from(["Zr\u20134", "UO\u2082", "5\u00b5m gap", "\u00e9", "na\u00efve", "\u03a9", "\U0001d6fd", "\u00a0", "\u00ff", "fuel\u2122"])),
    (1, st.text(alphabet=st.one_of(st.characters(min_codepoint=0xA0, max_codepoint=0xFF), st.characters(min_codepoint=0x100, max_codepoint=0xFFFF, blacklist_categories=("Cs",)),
                                   st.characters(min_codepoint=0x10000, max_codepoint=0x1FFFF), st.sampled_from(list("abcXY 019"))), min_size=1, max_size=5)),
)


def _ints(dt):
    lo, hi = _INT_RANGES[dt]
    edges = sorted({v for v in (lo, lo + 1, lo + 2, lo + 3, hi, hi - 1, hi - 2, hi - 3, 0, 1, 2, 3, -1, -2) if lo <= v <= hi})
    return st.one_of(st.sampled_from(edges), st.integers(lo, hi), st.integers(max(lo, -20), max(lo, min(hi, 20))))


def _scalar(dt):
    if dt in _INT_RANGES:
        return _ints(dt)
    if dt in _FLOAT_WIDTH:
        f = st.floats(width=_FLOAT_WIDTH[dt], allow_nan=True, allow_infinity=True)
        return _weighted((7, f), (1, st.just(float("nan"))))  # NaN is the unset marker of reals: make it common
    if dt in _BOOLS:
        return st.booleans()
    return _text


def _rotate(t):
    first, rest, rot = t
    ents = [first] + rest
    rot %= len(ents)
    return ents[rot:] + ents[:rot]


def _entries(value, lo=1, hi=12, none_weight=1):
    """Lists (one entry per object) of ``value`` with any pattern of None (an all-None list now and then)."""
    some = st.tuples(
        value, st.lists(_weighted((none_weight, st.none()), (3, value)), min_size=lo - 1, max_size=hi - 1), st.integers(0, 11)
    ).map(_rotate)
    return _weighted((15, some), (1, st.lists(st.none(), min_size=lo, max_size=4)))


_FORMS = st.sampled_from(["l", "l", "a", "a", "a", "t"])
# memory layout of ndarray entries (the value is the logical array; the layout must not matter): C, Fortran order,
# transposed view, strided slice of a wider array, negative strides, broadcast view
_LAYOUTS = st.sampled_from(["C", "C", "C", "F", "T", "stride", "neg", "bcast"])
_DIM = st.sampled_from([1, 1, 2, 2, 3])
_DIM0 = st.sampled_from([0, 1, 1, 2, 2, 3])


def _seq(dt, dims=_DIM0):
    return st.fixed_dictionaries(
        {"sh": st.lists(dims, min_size=3, max_size=3), "pool": st.lists(_scalar(dt), min_size=1, max_size=6), "f": _FORMS, "lay": _LAYOUTS}
    )


def _col_scalar(dt):
    return st.fixed_dictionaries({"cls": st.just("scalar"), "dt": st.just(dt), "e": _entries(_scalar(dt))})


def _col_fixed(dt):
    return st.fixed_dictionaries(
        {
            "cls": st.just("fixed"),
            "dt": st.just(dt),
            "ndim": st.sampled_from([1, 1, 2, 3]),
            "shape": st.lists(_DIM, min_size=3, max_size=3),
            "e": _entries(_seq(dt)),
        }
    )


def _col_ragged(dt):
    return st.fixed_dictionaries(
        {
            "cls": st.just("ragged"),
            "dt": st.just(dt),
            "ndim": st.sampled_from([1, 1, 2, 3]),
            "mixnd": st.sampled_from([False] * 9 + [True]),
            "e": _entries(_seq(dt), lo=2),
        }
    )


def _col_scalar_seq(dt):
    return st.fixed_dictionaries(
        {
            "cls": st.just("scalar+seq"),
            "dt": st.just(dt),
            "ndim": st.just(1),
            "e": st.lists(_weighted((1, st.none()), (2, _scalar(dt)), (3, _seq(dt))), min_size=2, max_size=12),
        }
    )


def _col_inner(dt):
    rag = st.fixed_dictionaries({"rag": st.lists(_scalar(dt), min_size=1, max_size=5), "style": st.integers(0, 2)})
    return st.fixed_dictionaries(
        {
            "cls": st.just("inner-ragged"),
            "dt": st.just(dt),
            "ndim": st.just(1),
            "e": st.lists(_weighted((2, st.none()), (6, rag), (1, _seq(dt))), min_size=1, max_size=8),
        }
    )


_KEYS = _weighted((6, st.sampled_from(["a", "b", "c", "U235", "PU239", "k"])), (6, st.text(alphabet="abcXYZ019_", min_size=1, max_size=6)),
                  (1, st.sampled_from(["UO\u2082", "\u00b5", "Zr\u20134"])))


def _col_dict():
    def one(vdt):
        d = st.dictionaries(_KEYS, _scalar(vdt), max_size=4)
        return st.fixed_dictionaries(
            {
                "cls": st.just("dict"),
                "dt": st.just(vdt),
                "pad": st.sampled_from([0, 0, 0, 0, 0, 0, 70000]),
                "e": _weighted((9, st.lists(d, min_size=1, max_size=12)), (1, _entries(d))),
            }
        )

    return st.sampled_from(["py:float", "py:float", "float64", "float32"]).flatmap(one)


def _col_dict_other():
    """dict columns whose values are not reals: ints (small and beyond 2**53), bools, None, numeric text, mixtures."""
    kinds = {
        "int": st.one_of(st.integers(-9, 9), st.integers(-(2**31), 2**31)),
        "bigint": st.one_of(st.integers(2**53 + 1, 2**63 - 1), st.integers(-(2**63), -(2**53) - 1)),
        "bool": st.booleans(),
        "none": st.none(),
        "numstr": st.sampled_from(["3.5", "0", "-1", "1e3", "nan", "7"]),
        "float": st.floats(allow_nan=False, allow_infinity=False, width=32),
    }

    def tagged(names):
        return st.sampled_from(names).flatmap(lambda k: st.fixed_dictionaries({"k": st.just(k), "v": kinds[k]}))

    def col(names):
        d = st.dictionaries(st.sampled_from(["a", "b", "c", "U235", "k"]), tagged(names), min_size=1, max_size=4)
        return st.fixed_dictionaries(
            {"cls": st.just("dict-other"), "dt": st.just("dict:" + "+".join(names)), "sameKeys": st.sampled_from([True, True, False]),
             "e": st.lists(d, min_size=1, max_size=8)}
        )

    return _weighted((4, col(["int"])), (3, col(["int", "bigint"])), (2, col(["bool"])), (2, col(["int", "float"])), (1, col(["int", "none"])),
                     (1, col(["float", "numstr"])), (1, col(["numstr"])), (1, col(["int", "bool", "float"])))


def _mk_dict_other(col, n):
    ents = col["e"]
    keys = sorted(ents[0])
    uniform_int = col["dt"] in ("dict:int", "dict:int+bigint")
    res = []
    for i in range(n):
        e = ents[i % len(ents)]
        if col["sameKeys"]:  # every object has the first entry's keys (values cycled): no key is ever missing
            vals = [e[k] for k in sorted(e)]
            e = {k: vals[j % len(vals)] for j, k in enumerate(keys)}
        d = {}
        for k in sorted(e):
            v = e[k]["v"]
            if e[k]["k"] == "bigint" and not (uniform_int and col["sameKeys"]):
                # a missing key (NaN) or a real neighbour makes the documented storage float64: keep ints exact there
                v = v % (2**53)
            d[k] = v
        res.append(d)
    return res


_MIX_DT = ["py:int", "py:float", "py:bool", "int8", "int16", "int32", "int64", "uint8", "float16", "float32", "float32", "float64"]


def _mixval(dt):
    if dt in _INT_RANGES:
        lo, hi = _INT_RANGES[dt]
        lo, hi = max(lo, -(2**53)), min(hi, 2**53)
        return st.one_of(st.integers(lo, hi), st.integers(max(lo, -5), min(hi, 5)))
    if dt in _FLOAT_WIDTH:
        return st.one_of(
            st.floats(width=_FLOAT_WIDTH[dt], allow_nan=False, allow_infinity=True),
            st.integers(-8, 8).map(lambda k: k / 2.0),
        )
    return st.booleans()


def _col_mixed(narrow_first=False):
    tagged = st.sampled_from(_MIX_DT).flatmap(lambda dt: st.fixed_dictionaries({"dt": st.just(dt), "v": _mixval(dt)}))
    ents = _entries(tagged, lo=2)
    if narrow_first:
        first = st.sampled_from(["float32", "float32", "float16"]).flatmap(lambda dt: st.fixed_dictionaries({"dt": st.just(dt), "v": _mixval(dt)}))
        ents = st.tuples(first, st.lists(_weighted((2, st.none()), (3, tagged)), min_size=1, max_size=10)).map(lambda t: [t[0]] + t[1])
    return st.fixed_dictionaries({"cls": st.just("mixed"), "dt": st.just("mixed"), "e": ents})


def _col_mixed_seq(narrow_first=False):
    val = st.one_of(st.integers(-(2**53), 2**53), st.integers(-9, 9), st.floats(allow_nan=False), st.integers(-8, 8).map(lambda k: k / 2.0))
    # "edt": the row is an ndarray of that real width (values rounded to it when the row is built); "py" = nested list
    seq = st.fixed_dictionaries({"sh": st.lists(_DIM0, min_size=3, max_size=3), "pool": st.lists(val, min_size=1, max_size=6), "f": st.sampled_from(["l", "l", "t"]),
                                 "edt": st.sampled_from(["py", "py", "py", "float32", "float32", "float16", "float64"]), "lay": _LAYOUTS})
    ents = _entries(seq)
    fixed = st.booleans()
    if narrow_first:
        first = st.fixed_dictionaries({"sh": st.lists(_DIM, min_size=3, max_size=3), "pool": st.lists(val, min_size=1, max_size=6), "f": st.just("l"),
                                       "edt": st.sampled_from(["float32", "float32", "float16"])})
        ents = st.tuples(first, st.lists(_weighted((2, st.none()), (3, seq)), min_size=1, max_size=8)).map(lambda t: [t[0]] + t[1])
        fixed = st.just(True)
    return st.fixed_dictionaries(
        {"cls": st.just("mixed-seq"), "dt": st.just("mixed"), "ndim": st.sampled_from([1, 1, 2]), "fixed": fixed,
         "shape": st.lists(_DIM, min_size=3, max_size=3), "e": ents}
    )


def column_strategy(classes=None):
    per_dt = {
        "scalar": (_col_scalar, _ALL_DT),
        # (Python ints beyond int64 only as scalars: NumPy types a nested list per entry, int64 here, uint64 there)
        "fixed": (_col_fixed, [d for d in _ALL_DT if d != "py:big"]),
        "ragged": (_col_ragged, [d for d in _NUMERIC_DT if d != "py:big"] + ["py:str"]),
        "scalar+seq": (_col_scalar_seq, [d for d in _NUMERIC_DT if d != "py:big"]),
        "inner-ragged": (_col_inner, ["py:int", "py:float", "float64", "int32", "py:bool"]),
    }
    weights = {"scalar": 5, "fixed": 4, "ragged": 5, "scalar+seq": 2, "inner-ragged": 1, "dict": 3, "mixed": 2, "mixed-seq": 1}
    opts = []
    for name, w in weights.items():
        if classes is not None and name not in classes:
            continue
        if name in per_dt:
            fn, dts = per_dt[name]
            s = st.sampled_from(dts).flatmap(fn)
        elif name == "dict":
            s = _weighted((3, _col_dict()), (2, _col_dict_other()))
        elif name == "mixed":
            s = _col_mixed()
        else:
            s = _col_mixed_seq()
        opts.append((w, s))
    # columns whose first set entry is a narrow real (float16/float32) with unset entries elsewhere: writable since
    # NONE_MAP knows these types; the first entry's type decides how the whole column is stored
    narrow = st.sampled_from(["float32", "float32", "float16"])
    if classes is None or "scalar" in classes:
        opts.append((1, narrow.flatmap(_col_scalar)))
    if classes is None or "fixed" in classes:
        opts.append((1, narrow.flatmap(_col_fixed)))
    # text columns without unset entries (with one they are always refused): ASCII text must round trip, text that ASCII
    # byte strings cannot hold must be refused at write time
    strs = st.sampled_from(["py:str", "py:str", "str"])
    if classes is None or "scalar" in classes:
        opts.append((1, strs.flatmap(lambda dt: st.fixed_dictionaries(
            {"cls": st.just("scalar"), "dt": st.just(dt), "e": st.lists(_text, min_size=1, max_size=6)}))))
    if classes is None or "fixed" in classes:
        opts.append((1, strs.flatmap(lambda dt: st.fixed_dictionaries(
            {"cls": st.just("fixed"), "dt": st.just(dt), "ndim": st.sampled_from([1, 1, 2]), "shape": st.lists(_DIM, min_size=3, max_size=3),
             "e": st.lists(_seq(dt), min_size=1, max_size=4)}))))
    if classes is None or "mixed" in classes:
        opts.append((1, _col_mixed(narrow_first=True)))
    if classes is None or "mixed-seq" in classes:
        opts.append((1, _col_mixed_seq(narrow_first=True)))
    return _weighted(*opts)


# --------------------------------------------------------------------------------------------
# materialising a column


def _np():
    import numpy as np

    return np


def _mk_scalar(dt, v):
    np = _np()
    if dt.startswith("py:"):
        return v
    if dt == "str":
        return np.str_(v)
    if dt == "bool":
        return np.bool_(v)
    return np.dtype(dt).type(v)


def _np_dtype(dt):
    """dtype handed to np.array for array-form sequences (None = let NumPy decide, as for a nested list)."""
    if dt.startswith("py:") or dt == "str":
        return None
    return _np().dtype(dt)


def _nest(flat, shape):
    if len(shape) == 1:
        return list(flat[: shape[0]])
    step = 1
    for d in shape[1:]:
        step *= d
    return [_nest(flat[i * step : (i + 1) * step], shape[1:]) for i in range(shape[0])]


def _mk_seq(dt, desc, shape):
    np = _np()
    size = 1
    for d in shape:
        size *= d
    pool = desc["pool"]
    form = desc["f"]
    if form == "a":
        flat = [pool[i % len(pool)] for i in range(size)]
        nested = _nest(flat, shape)
        arr = np.array(nested, dtype=_np_dtype(dt))
        if arr.shape != tuple(shape):  # zero-size inner dimensions collapse in nested lists
            arr = arr.reshape(shape)
        return _relayout(arr, desc.get("lay", "C"))
    flat = [_mk_scalar(dt, pool[i % len(pool)]) for i in range(size)]
    nested = _nest(flat, shape)
    return tuple(nested) if form == "t" else nested


def _relayout(arr, lay):
    """An array with the same logical content (except 'bcast': every row equals the first) in another memory layout."""
    np = _np()
    if lay == "C" or arr.size == 0:
        return arr
    if lay == "F":
        return np.asfortranarray(arr)
    if lay == "T":
        return np.ascontiguousarray(arr.T).T  # transposed view of a C array
    if lay == "stride":
        wide = np.zeros(arr.shape[:-1] + (2 * arr.shape[-1],), dtype=arr.dtype)
        wide[..., ::2] = arr
        return wide[..., ::2]
    if lay == "neg":
        return np.ascontiguousarray(arr[::-1])[::-1]
    if lay == "bcast":
        return np.broadcast_to(arr[0], arr.shape)
    return arr


def _mk_inner_ragged(dt, desc):
    vals = [_mk_scalar(dt, v) for v in desc["rag"]]
    style = desc["style"]
    if style == 0:  # [x, [y, z, ...]]
        return [vals[0], list(vals[1:]) or [vals[0]]]
    if style == 1:  # [[x], [y, z, ...], ...] inner lengths 1, 2, ...
        return [[vals[0]], [vals[i % len(vals)] for i in range(1, 3)]]
    return [tuple(vals), (vals[0],) * (len(vals) + 1)]


def _nobj(case, cols):
    """Number of objects: every generated entry is used at least once (shorter columns are cycled)."""
    return min(12, max([case["n"]] + [len(c["e"]) for c in cols]))


def build_column(col, n):
    """Values (one per object) described by ``col``; entries are cycled to length ``n``."""
    np = _np()
    cls, dt, ents = col["cls"], col["dt"], col["e"]
    if cls == "dict-other":
        return _mk_dict_other(col, n)
    out = []
    for i in range(n):
        e = ents[i % len(ents)]
        if e is None:
            out.append(None)
        elif cls == "dict":
            pad = "k" * col.get("pad", 0)
            out.append({(pad + k if j == 0 else k): _mk_scalar(dt, v) for j, (k, v) in enumerate(sorted(e.items()))})
        elif cls == "mixed":
            out.append(_mk_scalar(e["dt"], e["v"]))
        elif isinstance(e, dict) and "rag" in e:
            out.append(_mk_inner_ragged(dt, e))
        elif isinstance(e, dict):
            ndim = col.get("ndim", 1)
            if cls == "fixed" or (cls == "mixed-seq" and col.get("fixed")):
                shape = col["shape"][:ndim]
            else:
                shape = e["sh"][:ndim]
                if col.get("mixnd") and i % 2:
                    shape = e["sh"][: 1 + (ndim % 3)]
            if dt == "mixed" and e.get("edt", "py") != "py":
                with np.errstate(all="ignore"):
                    out.append(_mk_seq(e["edt"], dict(e, f="a"), list(shape)))
            else:
                out.append(_mk_seq("py:mixed" if dt == "mixed" else dt, e, list(shape)))
        else:
            out.append(_mk_scalar(dt, e))
    return out


# --------------------------------------------------------------------------------------------
# features of a materialised column and the known-defect shapes


def _is_seq(v):
    """list / tuple / ndarray with at least one dimension (a 0-d array is a boxed scalar)."""
    if isinstance(v, _np().ndarray):
        return v.ndim >= 1
    return isinstance(v, (list, tuple))


def _regular(v):
    """(shape, flat elements) of a regular nested sequence, None when the nesting is ragged.  Pure Python on
    purpose: np.array() of Python ints would promote mixed magnitudes to float64."""
    np = _np()
    if isinstance(v, np.ndarray):
        return tuple(int(d) for d in v.shape), list(v.ravel())
    if isinstance(v, (list, tuple)):
        if len(v) == 0:
            return (0,), []
        subs = [_regular(x) for x in v]
        if any(s is None for s in subs):
            return None
        shapes = {s[0] for s in subs}
        if len(shapes) != 1:
            return None
        flat = []
        for s in subs:
            flat.extend(s[1])
        return (len(v),) + shapes.pop(), flat
    return (), [v]


def _is_inner_ragged(v):
    """True when no regular array can be made out of this (non-empty) sequence."""
    if not isinstance(v, (list, tuple)) or len(v) == 0:
        return False
    return _regular(v) is None


def _first_scalar_type(values):
    for v in values:
        if v is not None:
            return type(v)
    return None


def _sentinel_of(tp):
    """The documented placeholder for integer type ``tp`` (None for other types)."""
    np = _np()
    if tp is int:
        return int(np.iinfo(np.int64).min) + 2
    if isinstance(tp, type) and issubclass(tp, np.signedinteger):
        return int(np.iinfo(tp).min) + 2
    if isinstance(tp, type) and issubclass(tp, np.unsignedinteger):
        return int(np.iinfo(tp).max) - 2
    return None


def features(values):
    np = _np()
    f = {
        "none": any(v is None for v in values),
        "allnone": all(v is None for v in values),
        "seq": any(_is_seq(v) for v in values),
        "listarr": any(isinstance(v, (list, np.ndarray)) for v in values),
        "scalar": any(v is not None and not _is_seq(v) and not isinstance(v, dict) for v in values),
        "dict": any(isinstance(v, dict) for v in values),
    }
    # does Database._writeParams send this column through the placeholder scheme (1-D plain data with None)?
    f["placeholder"] = f["none"] and not f["allnone"] and not f["seq"] and not f["dict"]
    return f


def _db_jagged(values):
    """Database._writeParams' documented decision: arrays/lists present and top-level shapes differ."""
    np = _np()
    if not any(isinstance(v, (np.ndarray, list)) for v in values):
        return False
    shapes = set()
    for v in values:
        if isinstance(v, np.ndarray):
            shapes.add(v.shape)
        elif isinstance(v, (list, tuple)):
            shapes.add((len(v),))
        else:
            shapes.add(1)
    return len(shapes) != 1


def _stored_type(values):
    """The type a placeholder-scheme column is stored as: that of its first non-None entry (element type for rows)."""
    np = _np()
    first = next((v for v in values if v is not None), None)
    if first is None or isinstance(first, dict):
        return None
    if isinstance(first, np.ndarray):
        return first.dtype.type if first.dtype.kind != "O" else None
    if _is_seq(first):
        try:
            flat = np.array(first)
        except ValueError:
            return None
        return flat.dtype.type if flat.dtype.kind != "O" else None
    return type(first)


def known_shape(values, route):
    """Signature of the known candidate defect this column triggers, else None.

    ``route``: 'db' (Database._writeParams decides), 'object' (1-D object array handed to packSpecialData /
    replaceNonesWithNonsense directly), 'jagged' (JaggedArray built directly).
    """
    np = _np()
    f = features(values)
    jagged = route == "jagged" or (route == "db" and _db_jagged(values))
    if jagged:
        contributing = [v for v in values if (_is_seq(v) and len(v) > 0) or isinstance(v, (int, float))]
        dropped = [v for v in values if v is not None and not _is_seq(v) and not isinstance(v, (int, float, dict, str))]
        if dropped:
            return SIG_NPSCALAR
        if contributing and all(_is_inner_ragged(v) for v in contributing):
            return SIG_INNER
        return None
    if not f["none"] or f["allnone"] or f["dict"]:
        return None
    # placeholder scheme: the first non-None entry decides the stored type
    ftype = _stored_type(values)
    if ftype is None:
        return None
    if isinstance(ftype, type) and issubclass(ftype, np.unsignedinteger) and EXCLUDE_KNOWN.get(SIG_UNSIGNED):
        return SIG_UNSIGNED  # (only while that defect is open; after its repair unsigned columns follow the integer rules)
    if ftype is int or (isinstance(ftype, type) and issubclass(ftype, np.integer)):
        for v in values:
            if v is None:
                continue
            if _is_seq(v):
                # rows are stacked with np.array() first: one real row makes the stack float64, which cannot hold
                # the int64 placeholder, before everything is cast back to the first row's integer type
                if np.array(v).dtype.kind == "f":
                    return SIG_CAST_FIRST
            elif not _survives_cast(ftype, v):
                # a number that the first entry's integer type cannot hold exactly (non-integral, non-finite, negative
                # for an unsigned type, out of range): the cast to the first entry's type changes it
                return SIG_CAST_FIRST
    if ftype in (np.float16, np.float32):
        # same call site (data.astype(type of the first non-None entry)), reachable since NONE_MAP knows float16/float32
        # (cbec4df): any other entry - scalar, or element of a row after the rows were stacked with np.array() - that the
        # narrow real type cannot hold exactly is changed by the cast (precision loss, overflow to inf, large ints)
        for v in values:
            if v is None:
                continue
            elems = (list(v.ravel()) if isinstance(v, np.ndarray) else _flatten(v)) if _is_seq(v) else [v]
            if not all(_survives_cast(ftype, x) for x in elems):
                return SIG_CAST_FIRST
    return None


def _survives_cast(ftype, x):
    """True when the number ``x`` is unchanged by a cast to the integer or real type ``ftype`` (for a real target NaN
    stays the unset marker; an integer target holds neither NaN nor inf)."""
    np = _np()
    if x is None or isinstance(x, (bool, np.bool_, str)):
        return True
    if ftype is int or (isinstance(ftype, type) and issubclass(ftype, np.integer)):
        if isinstance(x, (int, np.integer)):
            iv = int(x)  # exact: float(x) would round 64-bit magnitudes out of range
        elif isinstance(x, (float, np.floating)):
            fx = float(x)
            if not math.isfinite(fx) or fx != math.floor(fx):
                return False
            iv = int(fx)
        else:
            return True
        info = np.iinfo(np.int64 if ftype is int else ftype)
        return info.min <= iv <= info.max
    with np.errstate(all="ignore"):
        if isinstance(x, (float, np.floating)):
            fx = float(x)
            return math.isnan(fx) or float(ftype(fx)) == fx
        if isinstance(x, (int, np.integer)):
            try:
                c = float(ftype(int(x)))
            except OverflowError:
                return False
            return math.isfinite(c) and int(c) == int(x)
    return True


def avoid_documented_sentinel(values, out):
    """Replace the documented placeholders by harmless values in a column that goes through the placeholder scheme.

    The placeholder is that of the type the column is STORED as - the type of its first non-None entry: iinfo.min+2
    for a signed, iinfo.max-2 for an unsigned integer type ('<!None!>' for text) - whatever the type of the entry that
    happens to hold that value ([uint8 0, None, 253] stores 253 as uint8, where it is the marker)."""
    np = _np()
    hit = []
    marker = _sentinel_of(_stored_type(values))

    def is_marker(x):
        if marker is None or isinstance(x, (bool, np.bool_)) or not isinstance(x, (int, float, np.integer, np.floating)):
            return False
        if isinstance(x, (float, np.floating)):
            fx = float(x)
            return math.isfinite(fx) and fx == math.floor(fx) and int(fx) == marker
        return int(x) == marker

    def fix(v):
        if v is None or isinstance(v, dict):
            return v
        if isinstance(v, str):
            if v == "<!None!>":
                hit.append(1)
                return type(v)("x")
            return v
        if isinstance(v, np.ndarray):
            if v.dtype.kind in "US":
                if (v == "<!None!>").any():
                    v = v.copy()
                    v[v == "<!None!>"] = "x"
                    hit.append(1)
                return v
            if v.dtype.kind in "iuf" and v.size:
                mask = np.array([is_marker(x) for x in v.ravel()], dtype=bool).reshape(v.shape)
                if mask.any():
                    v = np.array(v)
                    v[mask] = 0
                    hit.append(1)
            return v
        if isinstance(v, (list, tuple)):
            return type(v)(fix(x) for x in v)
        if is_marker(v):
            hit.append(1)
            return type(v)(0)
        return v

    res = [fix(v) for v in values]
    if hit:
        out.label("adjusted:documented-placeholder-value")
    return res


# --------------------------------------------------------------------------------------------
# the oracle: documented normal form and comparison

UNSET = ("unset",)


def _kind_of_scalar(x):
    np = _np()
    if isinstance(x, (bool, np.bool_)):
        return "b"
    if isinstance(x, (int, np.integer)):
        return "i"
    if isinstance(x, (float, np.floating)):
        return "f"
    if isinstance(x, (str, bytes)):
        return "s"
    return "?" + type(x).__name__


def _norm_scalar(x):
    """(kind, value) of one element; NaN -> UNSET."""
    if x is None:
        return UNSET
    k = _kind_of_scalar(x)
    if k == "b":
        return ("b", bool(x))
    if k == "i":
        return ("i", int(x))
    if k == "f":
        x = float(x)
        return UNSET if math.isnan(x) else ("f", x)
    if k == "s":
        return ("s", str(x))
    return (k, repr(x))


def _flatten(x):
    if _is_seq(x):
        res = []
        for y in x:
            res.extend(_flatten(y))
        return res
    return [x]


def norm_entry(v, among_sequences):
    """Documented normal form of one entry of a column."""
    np = _np()
    if isinstance(v, np.ndarray) and v.ndim == 0:
        v = v[()]
    if v is None:
        return UNSET
    if isinstance(v, dict):
        items = []
        for k, x in v.items():
            nx = ("none",) if x is None else _norm_scalar(x)  # only NaN means "key absent"
            if nx is not UNSET:
                items.append((str(k), nx))
        return ("dict", tuple(sorted(items)))
    if _is_seq(v):
        reg = _regular(v)
        if reg is None:  # inner lists are ragged: documented to come back flattened
            flat = _flatten(v)
            shape = (len(flat),)
        else:
            shape, flat = reg
        elems = tuple(_norm_scalar(x) for x in flat)
        if len(elems) == 0:
            return UNSET
        if all(e is UNSET for e in elems):
            return UNSET
        return ("arr", shape, elems)
    if among_sequences:
        e = _norm_scalar(v)
        return UNSET if e is UNSET else ("arr", (1,), (e,))
    return _norm_scalar(v)


def _kinds(n):
    if n is UNSET:
        return set()
    if n[0] == "arr":
        return {e[0] for e in n[2] if e is not UNSET}
    if n[0] == "dict":
        return {e[1][0] for e in n[1]}
    return {n[0]}


def _values_equal(a, b):
    """Numerical equality of two normal forms (kinds ignored)."""
    if a is UNSET or b is UNSET:
        return a is b
    if a[0] != b[0] and not (a[0] in "bif" and b[0] in "bif"):
        return False
    if a[0] == "arr":
        return a[1] == b[1] and len(a[2]) == len(b[2]) and all(_values_equal(x, y) for x, y in zip(a[2], b[2]))
    if a[0] == "dict":
        return len(a[1]) == len(b[1]) and all(x[0] == y[0] and _values_equal(x[1], y[1]) for x, y in zip(a[1], b[1]))
    return a[1] == b[1]


def compare(written, read, strict_kind=True):
    """None when the read column equals the written one in normal form, else (clause, message)."""
    if len(written) != len(read):
        return "entry-count", "%d entries written, %d read" % (len(written), len(read))
    among = any(_is_seq(v) for v in written)
    for i, (w, r) in enumerate(zip(written, read)):
        nw = norm_entry(w, among)
        nr = norm_entry(r, among)
        if nw == nr:
            continue
        msg = "entry %d: written %r read %r (column written %r, read %r)" % (i, w, r, written, read)
        if (nw is UNSET) != (nr is UNSET):
            return "unset-positions", msg
        if nw[0] != nr[0] and (nw[0] in ("arr", "dict") or nr[0] in ("arr", "dict")):
            return "structure", msg
        if nw[0] == "arr" and nw[1] != nr[1]:
            return "shape", msg
        if not _values_equal(nw, nr):
            return "values", msg
        if strict_kind and _kinds(nw) != _kinds(nr):
            return "numeric-kind", msg
    return None


def _exc_where(exc):
    import traceback

    from vp import env

    root = env.armi_root() + os.sep
    for fr in reversed(traceback.extract_tb(exc.__traceback__)):
        fn = os.path.abspath(fr.filename)
        if fn.startswith(root):
            return "%s/%s" % (type(exc).__name__, fr.name)
    return None


def _read_failure(out, layer, values, route, exc):
    """An exception while reading is a violation; harness faults propagate."""
    where = _exc_where(exc)
    if where is None:
        raise exc
    sig = known_shape(values, route) or "%s/read-exception/%s" % (layer, where)
    out.fail(sig, "reading back %r raised %s: %s" % (values, type(exc).__name__, str(exc)[:200]))


def _strict_kind(col, values):
    """Is the numeric kind part of the oracle for this column?  Not for mixed-kind columns.  For dictionaries whose
    values are not reals (packSpecialData documents Dict[str, float]; a missing key is stored as NaN, i.e. as reals):
    only when every value has one kind and no key is missing anywhere - then armi keeps ints ints and bools bools."""
    if col["cls"].startswith("mixed"):
        return False
    if col["cls"] == "dict-other":
        ds = [v for v in values if isinstance(v, dict)]
        kinds = {_kind_of_scalar(x) for d in ds for x in d.values() if x is not None}
        return len(kinds) == 1 and len({tuple(sorted(d)) for d in ds}) == 1
    return True


def _judge(out, layer, values, read, route, strict):
    res = compare(values, read, strict_kind=strict)
    if res is not None:
        sig = known_shape(values, route) or "%s/%s" % (layer, res[0])
        out.fail(sig, res[1])
    return res is None


def _class_labels(out, col, values, route):
    f = features(values)
    out.label("cls:" + col["cls"], "dt:" + col["dt"])
    tags = []
    if f["none"]:
        tags.append("none")
    if route == "jagged" or (route == "db" and _db_jagged(values)):
        tags.append("ragged")
    np = _np()
    if any(isinstance(v, np.ndarray) and v.ndim > 1 for v in values) or any(
        isinstance(v, (list, tuple)) and len(v) and _is_seq(v[0]) for v in values
    ):
        tags.append("n-d")
    if col["dt"] not in ("py:int", "py:float", "py:bool", "py:str", "int64", "float64", "mixed"):
        tags.append("non-default-dtype")
    if f["dict"]:
        tags.append("dict")
    if any(isinstance(v, np.ndarray) and v.ndim >= 1 and v.size > 1 and not (v.flags["C_CONTIGUOUS"] and v.flags["OWNDATA"] or v.flags["C_CONTIGUOUS"] and v.ndim == 1 and v.strides[0] > 0) for v in values):
        out.label("has:non-C-layout-array")
        if any(isinstance(v, np.ndarray) and v.ndim >= 2 and not v.flags["C_CONTIGUOUS"] for v in values):
            out.label("has:non-C-layout-nd-array")
    if any(isinstance(x, str) and not x.isascii() for v in values for x in (_flatten(v) if isinstance(v, (list, tuple)) else (list(v.ravel()) if isinstance(v, np.ndarray) and v.dtype.kind == "U" else [v]))):
        out.label("has:non-ascii-text")
    if col["cls"].startswith("mixed"):
        tags.append("mixed-kind")
    for t in tags:
        out.label("has:" + t)
    if f["none"] and not f["allnone"] and not f["dict"] and "ragged" not in tags:
        first = next(v for v in values if v is not None)
        ft = first.dtype.type if isinstance(first, np.ndarray) else (np.array(first).dtype.type if _is_seq(first) and _regular(first) else type(first))
        if ft in (np.float16, np.float32):
            out.label("first-entry:%s%s+none" % (ft.__name__, "-array" if _is_seq(first) else ""))
    return tags


def _expected_width(col, values):
    """dtype a placeholder-scheme column of one NumPy real/integer width must be stored with, else None."""
    np = _np()
    if col["cls"] not in ("scalar", "fixed") or col["dt"].startswith("py:") or col["dt"] not in list(_INT_RANGES) + list(_FLOAT_WIDTH):
        return None
    f = features(values)
    if not f["none"] or f["allnone"]:
        return None
    return np.dtype(col["dt"])


def _attempt(out, col, f):
    """Denominators for the per-class rejected fractions."""
    out.label("attempt:%s%s" % (col["cls"], "+none" if f["none"] else ""))
    if col["cls"] in ("scalar", "fixed"):
        out.label("attempt-dt:%s%s" % (col["dt"], "+none" if f["none"] else ""))


def _excluded(out, col, values, route, case):
    sig = known_shape(values, route)
    if sig is not None and EXCLUDE_KNOWN.get(sig) and not case.get("noexclude"):
        out.label("excluded:" + sig)
        return True
    return False


# --------------------------------------------------------------------------------------------
# scratch HDF5 files (one per worker process, recycled)

_H5 = {"file": None, "path": None, "count": 0, "db": None, "dbcount": 0, "dbname": None}


def _ensure_workdir():
    """Scratch cwd + fast path of this process.  A pool process that runs a second shard has had its scratch
    directory removed by the runner (env.cleanup_scratch) while env.configure() stays a no-op: re-establish both."""
    from armi import context

    from vp import env

    d = env.scratch_dir()
    if os.getcwd() != d:
        os.chdir(d)
    fp = os.path.join(d, "fast")
    if not os.path.isdir(fp):
        os.makedirs(fp, exist_ok=True)
    if context._FAST_PATH != fp:
        context._FAST_PATH = fp
        context._FAST_PATH_IS_TEMPORARY = False
    if _H5.get("scratch") != d:  # handles into a removed directory: forget them
        for key in ("file", "db"):
            h = _H5[key]
            _H5[key] = None
            if h is not None:
                try:
                    h.close()
                except Exception:  # noqa: BLE001
                    pass
        _H5["scratch"] = d
    return d


def _h5group():
    import h5py

    from vp import env

    _ensure_workdir()
    if _H5["file"] is None or _H5["count"] >= 400:
        _h5close()
        _H5["path"] = os.path.join(env.scratch_dir(), "c05_l0_%d.h5" % os.getpid())
        _H5["file"] = h5py.File(_H5["path"], "w")
        _H5["count"] = 0
    _H5["count"] += 1
    return _H5["file"].create_group("c%05d" % _H5["count"])


def _h5close():
    if _H5["file"] is not None:
        try:
            _H5["file"].close()
        finally:
            _H5["file"] = None
            if os.path.exists(_H5["path"]):
                os.remove(_H5["path"])


def _dbgroup():
    from armi.bookkeeping.db.database import Database

    _ensure_workdir()
    if _H5["db"] is None or _H5["dbcount"] >= 400:
        _dbclose()
        _H5["dbname"] = "c05_l1_%d.h5" % os.getpid()
        db = Database(_H5["dbname"], "w")
        db.open()
        if not _H5.get("atexit"):
            import atexit

            atexit.register(_dbclose)  # runs before armi's own exit hook, which would trip over the removed scratch dir
            _H5["atexit"] = True
        _H5["db"] = db
        _H5["dbcount"] = 0
    _H5["dbcount"] += 1
    return _H5["db"], _H5["db"].h5db.create_group("c%05d" % _H5["dbcount"])


def _dbclose():
    if _H5["db"] is not None:
        db = _H5["db"]
        _H5["db"] = None
        try:
            db.close()
        except OSError:  # the per-process scratch directory is already gone (worker shutdown)
            pass
        for p in (db._fullPath, _H5["dbname"]):
            if p and os.path.exists(p):
                os.remove(p)


def _drop(group):
    parent = group.parent
    del parent[group.name]


# --------------------------------------------------------------------------------------------
# part l0_sentinel: replaceNonesWithNonsense -> replaceNonsenseWithNones, in memory


def sentinel_strategy(tier):
    general = column_strategy(["scalar", "fixed", "mixed"])
    # equally shaped arrays of the kinds that have a placeholder (rows that are partly / entirely placeholder)
    arrays = st.sampled_from(["py:float", "float64", "py:int", "int8", "int32", "uint16"]).flatmap(_col_fixed)
    return st.fixed_dictionaries({"col": _weighted((3, general), (1, arrays)), "n": st.integers(1, 12)})


def _object_array(values):
    np = _np()
    a = np.empty(len(values), dtype=object)
    for i, v in enumerate(values):
        a[i] = v
    return a


def sentinel_execute(case):
    np = _np()
    from armi.bookkeeping.db import layout

    out = Out()
    col = case["col"]
    values = build_column(col, _nobj(case, [col]))
    if col["cls"] == "fixed":
        # documented input: None or "a valid, database-storable numpy array" of one shape
        values = [v if v is None else np.array(v) for v in values]
        if any(v is not None and (v.size == 0 or v.dtype.kind == "O") for v in values):
            out.label("skipped:empty-array")
            return out
    values = avoid_documented_sentinel(values, out)
    tags = _class_labels(out, col, values, "object")
    f = features(values)
    out.nontrivial = f["none"] and not f["allnone"] and len(values) >= 2
    if _excluded(out, col, values, "object", case):
        return out
    # callers (layout.py, vtk.py, database.py) hand over np.array(list of per-object values)
    if col["cls"] == "fixed":
        data = _object_array(values) if f["none"] else np.array(values)
    else:
        try:
            data = np.array(values)
        except (ValueError, OverflowError):
            out.rejected = True
            out.label("rejected:" + col["cls"])
            return out
    if data.dtype.kind == "O" and not f["none"]:
        out.label("skipped:object-without-none")  # e.g. ints beyond 64 bits; not a placeholder-scheme input
        return out
    try:
        stored = layout.replaceNonesWithNonsense(data, "c05")
    except (TypeError, ValueError):
        out.rejected = True
        out.label("rejected:%s%s" % (col["cls"], "+none" if f["none"] else ""), "rejected-dt:" + col["dt"])
        return out
    out.check(stored.dtype.kind != "O", "l0_sentinel/object-dtype-stored", lambda: "%r -> %r" % (values, stored))
    want = _expected_width(col, values)
    out.check(want is None or stored.dtype == want, "l0_sentinel/stored-width-changed", lambda: "%r stored as %r" % (values, stored.dtype))
    if not f["none"]:
        # nothing to mark: the reader is only invoked for data flagged as containing None
        read = stored.tolist()
    else:
        try:
            read = layout.replaceNonsenseWithNones(stored, "c05").tolist()
        except Exception as exc:  # noqa: BLE001
            _read_failure(out, "l0_sentinel", values, "object", exc)
            return out
    _judge(out, "l0_sentinel", values, read, "object", strict=_strict_kind(col, values))
    return out


# --------------------------------------------------------------------------------------------
# part l0_pack: packSpecialData / JaggedArray -> HDF5 dataset + attrs -> unpackSpecialData


def pack_strategy(tier):
    return st.fixed_dictionaries(
        {"col": column_strategy(), "n": st.integers(1, 12), "route": st.sampled_from(["db", "db", "object", "object", "jagged"])}
    )


def _store_and_load(group, name, data, attrs):
    """What Database._writeParams / _readParams do around packSpecialData (dataset, attributes, decoding)."""
    np = _np()
    from armi.bookkeeping.db.database import Database, unpackSpecialData

    ds = group.create_dataset(name, data=data, compression="gzip", track_order=True)
    if any(attrs):
        Database._writeAttrs(ds, group, attrs)
    group.file.flush()

    def load():
        dset = group[name]
        raw = dset[:]
        got = Database._resolveAttrs(dset.attrs, group)
        if raw.dtype.type is np.bytes_:
            raw = np.char.decode(raw)
        if got.get("specialFormatting", False):
            raw = unpackSpecialData(raw, got, name)
        return raw.tolist()

    return load


def pack_execute(case):
    np = _np()
    from armi.bookkeeping.db.database import packSpecialData
    from armi.bookkeeping.db.jaggedArray import JaggedArray

    out = Out()
    col, route = case["col"], case["route"]
    values = build_column(col, _nobj(case, [col]))
    f = features(values)
    if route == "jagged" and (f["dict"] or not f["seq"] or any(isinstance(v, str) for v in values)):
        route = "db"
    if route == "object" and not (f["none"] and not f["allnone"]):
        route = "db"
    if route == "object" and f["seq"]:
        # the documented object-array input: None or equally shaped regular sequences
        shapes = set()
        for v in values:
            if v is not None:
                try:
                    shapes.add(np.array(v).shape if _is_seq(v) else None)
                except ValueError:
                    shapes.add("ragged")
        if len(shapes) != 1 or "ragged" in shapes or any(s is not None and 0 in s for s in shapes):
            route = "db"
    if route != "jagged" and not (route == "db" and _db_jagged(values)):
        values = avoid_documented_sentinel(values, out)
    out.label("route:" + route)
    tags = _class_labels(out, col, values, route)
    out.nontrivial = len(tags) >= 2
    if _excluded(out, col, values, route, case):
        return out
    strict = _strict_kind(col, values)
    _attempt(out, col, f)

    def rejected():
        out.rejected = True
        out.label("rejected:%s%s" % (col["cls"], "+none" if f["none"] else ""))
        if col["cls"] in ("scalar", "fixed"):
            out.label("rejected-dt:%s%s" % (col["dt"], "+none" if f["none"] else ""))
        return out

    group = _h5group()
    try:
        # ---- write side: everything up to the dataset and its attributes
        try:
            if route == "jagged" or (route == "db" and _db_jagged(values)):
                data = JaggedArray(values, "c05")
            elif route == "object":
                data = _object_array(values)
            else:
                data = np.array(values)
            attrs = {}
            if isinstance(data, JaggedArray):
                data, attrs = packSpecialData(data, "c05")
            else:
                if data.dtype.kind == "U":
                    data = data.astype("S")
                if data.dtype.kind == "O":
                    data, attrs = packSpecialData(data, "c05")
            if data is None:
                load = None
            else:
                want = _expected_width(col, values) if route in ("db", "object") and not _db_jagged(values) or route == "object" else None
                out.check(want is None or data.dtype == want, "l0_pack/stored-width-changed", lambda: "%r stored as %r" % (values, data.dtype))
                load = _store_and_load(group, "c05", data, attrs)
        except Exception as exc:  # noqa: BLE001  (any error while writing is a rejection)
            if _exc_where(exc) is None and not isinstance(exc, (ValueError, TypeError, OverflowError, UnicodeError)):
                raise
            return rejected()
        # ---- read side
        if load is None:
            out.label("nothing-stored")
            ok = all(norm_entry(v, True) is UNSET for v in values)
            out.check(ok, known_shape(values, route) or "l0_pack/values-dropped", lambda: "nothing stored for %r" % (values,))
            return out
        try:
            read = load()
        except Exception as exc:  # noqa: BLE001
            _read_failure(out, "l0_pack", values, route, exc)
            return out
        _judge(out, "l0_pack", values, read, route, strict)
        if col.get("pad") and any(isinstance(v, dict) and v for v in values):
            out.label("large-attribute" + ("-moved-to-dataset" if "attrs" in group else "-inline"))
    finally:
        _drop(group)
    return out


# --------------------------------------------------------------------------------------------
# part l1_database: probe composite through the real Database._writeParams / _readParams

_PROBE = {}
_NPARAMS = 3
_DEFAULTS = {"dInt": 0, "dFloat": 0.0, "dStr": "", "dBool": False}


def _probe():
    if "cls" in _PROBE:
        return _PROBE["cls"]
    from armi.reactor import composites, parameters
    from armi.reactor.flags import Flags

    pDefs = parameters.ParameterDefinitionCollection()
    with pDefs.createBuilder(default=None, location=parameters.ParamLocation.AVERAGE) as pb:
        for i in range(_NPARAMS):
            pb.defParam("q%d" % i, units="", description="C05 probe parameter %d (any kind)" % i)
        for name, default in _DEFAULTS.items():
            pb.defParam(name, units="", description="C05 probe parameter with default", default=default)
    pDefs.add(
        parameters.Parameter(
            "qFlags",
            units="",
            description="C05 probe flag parameter",
            location=parameters.ParamLocation.AVERAGE,
            saveToDB=True,
            default=Flags(0),
            setter=parameters.NoDefault,
            categories=set(),
            serializer=composites.FlagSerializer,
        )
    )

    # the metaclass looks for ``pDefs`` in the class body
    C05Probe = type(composites.Composite)("C05Probe", (composites.Composite,), {"pDefs": pDefs})
    _PROBE["cls"] = C05Probe
    _PROBE["names"] = ["q%d" % i for i in range(_NPARAMS)] + list(_DEFAULTS) + ["qFlags"]
    return C05Probe


def l1_strategy(tier):
    flags = st.lists(st.lists(st.integers(0, 200), max_size=5), min_size=1, max_size=12)
    return st.fixed_dictionaries(
        {
            "n": st.integers(1, 12),
            "cols": st.lists(column_strategy(), min_size=1, max_size=_NPARAMS),
            "single": st.sampled_from([True, True, False]),
            "assignNone": st.booleans(),
            "defaulted": st.sampled_from([False, False, True]),
            "flags": st.one_of(st.none(), flags),
        }
    )


_DEFAULT_DT = {
    # (not uint64: NumPy promotes a Python-int default next to uint64 scalars to float64)
    "dInt": ["py:int", "int8", "int16", "int32", "int64", "uint8", "uint16", "uint32"],
    "dFloat": ["py:float", "float64"],
    "dStr": ["py:str", "str"],
    "dBool": ["py:bool", "bool"],
}


def _l1_roundtrip(out, case, columns, flagvals):
    """columns: list of (param name, col, values, default).  Returns 'rejected' or None."""
    from armi.reactor import parameters
    from armi.reactor.flags import Flags

    cls = _probe()
    n = len(columns[0][2])
    for pd in cls.pDefs:
        pd.assigned = parameters.NEVER
    comps = [cls("o%d" % i) for i in range(n)]
    for name, col, values, default in columns:
        for c, v in zip(comps, values):
            if v is None and (default is not None or not case["assignNone"]):
                continue  # left unassigned: the definition's default is written
            c.p[name] = v
        if all(v is None for v in values) and default is None:
            comps[0].p[name] = None
    fields = Flags.sortedFields()
    want_flags = None
    if flagvals is not None:
        want_flags = []
        for i, c in enumerate(comps):
            names = sorted({fields[k % len(fields)] for k in flagvals[i % len(flagvals)]})
            want_flags.append(names)
            fl = Flags(0)
            for nm in names:
                fl = fl | Flags[nm]
            c.p.qFlags = fl
    db, group = _dbgroup()
    try:
        try:
            db._writeParams(group, comps)
        except Exception:  # noqa: BLE001  (any error while writing is a rejection)
            return "rejected"
        fresh = [cls("n%d" % i) for i in range(n)]
        h5 = group[cls.__name__]
        for name, col, values, default in columns:
            if default is None and all(v is None for v in values):
                out.label("all-unset")
                out.check(name not in h5, "l1_database/all-unset-stored", lambda: "an all-None column stored a dataset")
            want = _expected_width(col, values) if default is None and not _db_jagged(values) else None
            if want is not None and name in h5:
                out.check(h5[name].dtype == want, "l1_database/stored-width-changed",
                          lambda: "%r stored as %r" % (values, h5[name].dtype))
        try:
            db._readParams(group, cls.__name__, fresh)
        except Exception as exc:  # noqa: BLE001
            allvals = [v for _n, _c, vals, _d in columns for v in vals]
            sig = None
            for name, col, values, default in columns:
                sig = sig or known_shape([default if v is None else v for v in values], "db")
            where = _exc_where(exc)
            if where is None:
                raise
            out.fail(sig or "l1_database/read-exception/%s" % where,
                     "reading back %r raised %s: %s" % (allvals, type(exc).__name__, str(exc)[:200]))
            return None
        for name, col, values, default in columns:
            expect = [default if v is None else v for v in values]
            read = [c.p[name] for c in fresh]
            _judge(out, "l1_database", expect, read, "db", strict=_strict_kind(col, expect))
        if want_flags is not None:
            got = [sorted(k for k, val in Flags.fields().items() if int(c.p.qFlags) & val) for c in fresh]
            out.check(got == want_flags, "l1_database/flag-names", lambda: "flags written %r read %r" % (want_flags, got))
        untouched = [nm for nm in _PROBE["names"] if nm not in [c[0] for c in columns] and nm != "qFlags"]
        for nm in untouched:
            dflt = _DEFAULTS.get(nm)
            out.check(all(c.p[nm] == dflt for c in fresh), "l1_database/unwritten-parameter-changed",
                      lambda: "parameter %s was never assigned but reads %r" % (nm, [c.p[nm] for c in fresh]))
    finally:
        _drop(group)
    return None


def l1_execute(case):
    out = Out()
    cols = case["cols"][:1] if case["single"] else case["cols"]
    n = _nobj(case, cols)
    columns = []
    alltags = set()
    for i, col in enumerate(cols):
        values = build_column(col, n)
        name, default = "q%d" % i, None
        dname = next((k for k, dts in _DEFAULT_DT.items() if col["dt"] in dts), None)
        if i == 0 and case["defaulted"] and col["cls"] == "scalar" and dname:
            name, default = dname, _DEFAULTS[dname]
            out.label("with-default:" + name)
        effective = [default if v is None else v for v in values]
        if features(effective)["placeholder"]:
            values = avoid_documented_sentinel(values, out)
            effective = [default if v is None else v for v in values]
        alltags.update(_class_labels(out, col, effective, "db"))
        if _excluded(out, col, effective, "db", case):
            continue
        _attempt(out, col, features(effective))
        columns.append((name, col, values, default))
    out.nontrivial = len(alltags) >= 2
    if not columns:
        return out

    def note_rejected(col, values, default=None):
        f = features([default if v is None else v for v in values])
        out.label("rejected:%s%s" % (col["cls"], "+none" if f["none"] else ""))
        if col["cls"] in ("scalar", "fixed"):
            out.label("rejected-dt:%s%s" % (col["dt"], "+none" if f["none"] else ""))

    res = _l1_roundtrip(out, case, columns, case["flags"])
    if res == "rejected":
        if len(columns) == 1:
            out.rejected = True
            note_rejected(columns[0][1], columns[0][2], columns[0][3])
        else:
            # find out which column(s) the database refuses; the others must still round trip
            out.label("multi-column-retry")
            nrej = 0
            for one in columns:
                if _l1_roundtrip(out, case, [one], None) == "rejected":
                    nrej += 1
                    note_rejected(one[1], one[2], one[3])
            out.rejected = nrej == len(columns)
            out.check(nrej > 0, "l1_database/write-fails-only-together",
                      lambda: "columns are accepted one by one but refused together: %r" % ([c[2] for c in columns],))
    return out


# --------------------------------------------------------------------------------------------
# part l2_reactor: the same columns on real block / component / assembly / core parameters, writeToDB -> load

_L2_TARGETS = [
    ("block", "mgFlux"), ("comp", "pinNum"), ("block", "pinMgFluxes"), ("assem", "powerDecay"), ("block", "linPowByPin"),
    ("core", "beta"), ("block", "reactionRates"), ("comp", "detailedNDens"), ("block", "chi"), ("comp", "pinPercentBu"),
    ("block", "betad"), ("assem", "detailedNDens"), ("block", "axialPowerProfile"), ("comp", "massHmBOL"),
    ("core", "eigenvalues"), ("core", "betaComponents"),
]


def l2_strategy(tier):
    from vp.gen import reactor as rg

    return st.fixed_dictionaries(
        {
            "spec": rg.reactor_spec(geoms=("hex",), max_rings=2, max_blocks=2, allow_pin_grid=False, allow_holes=False),
            "col": column_strategy(["scalar", "fixed", "ragged", "scalar+seq", "inner-ragged", "dict"]),
            "target": st.integers(0, len(_L2_TARGETS) - 1),
            "compType": st.integers(0, 5),
            "assignNone": st.booleans(),
        }
    )


def _map_ints(col, fn):
    def m(e):
        if isinstance(e, bool) or e is None:
            return e
        if isinstance(e, int):
            return fn(e)
        if isinstance(e, dict):
            return {k: ([m(x) for x in v] if k in ("pool", "rag") else v) for k, v in e.items()}
        return e

    res = dict(col)
    res["e"] = [m(e) for e in col["e"]]
    return res


def _path(obj):
    names = []
    while obj is not None:
        names.append(obj.name)
        obj = obj.parent
    return "/".join(reversed(names))


def _l2_objects(r, level, pick):
    if level == "core":
        return [r.core]
    if level == "assem":
        objs = list(r.core)
    elif level == "block":
        objs = r.core.getBlocks()
    else:
        objs = [c for b in r.core.getBlocks() for c in b]
    types = sorted({type(o).__name__ for o in objs})
    want = types[pick % len(types)]
    return [o for o in objs if type(o).__name__ == want]


def l2_execute(case):
    from armi.bookkeeping.db.database import Database

    from vp.gen import reactor as rg

    out = Out()
    _ensure_workdir()
    col = case["col"]
    if col["dt"] in ("uint64", "py:big"):
        # Database._readParams hands Python lists to the parameter setters; the ndarray setters of real parameters
        # re-type them and NumPy makes float64 of ints that mix the int64 and uint64 ranges.  That is the setter, not
        # the encoding: keep real-parameter values below 2**63 (l0/l1 cover the full uint64 range).
        if col["dt"] == "py:big":
            out.label("skipped:py-big-on-real-parameter")
            return out
        col = _map_ints(col, lambda v: v % (2**63))
    level, pname = _L2_TARGETS[case["target"]]
    cs, bp, r = rg.build(case["spec"])
    objs = _l2_objects(r, level, case["compType"])
    out.label("level:" + level, "param:" + pname, "objects:%s" % ("1" if len(objs) == 1 else "2-12" if len(objs) <= 12 else ">12"))
    values = build_column(col, len(objs))
    if features(values)["placeholder"]:
        values = avoid_documented_sentinel(values, out)
    assign_none = case["assignNone"]
    if not assign_none:
        # an object left unassigned keeps the value the parameter already has (0.0 for some shapes' massHmBOL).  Next to
        # entries of another kind that is a mixed-kind column of the harness' own making (np.array() turns text + number
        # into text, 64-bit integers + 0.0 into float64, before armi looks at it; no layer generates those shapes):
        # assign None instead
        dt = col["dt"]
        kind = "i" if dt in _INT_RANGES else "f" if dt in _FLOAT_WIDTH else "b" if dt in _BOOLS else "s"
        kept = [o.p[pname] for o, v in zip(objs, values) if v is None]
        if any(k_ is not None and (_is_seq(k_) or isinstance(k_, dict) or _kind_of_scalar(k_) != kind) for k_ in kept):
            assign_none = True
            out.label("forced-assign-none:kept-value-of-another-kind")
    try:
        for o, v in zip(objs, values):
            if v is None and not assign_none:
                continue
            o.p[pname] = v
    except (ValueError, TypeError):
        out.label("skipped:parameter-setter-refuses")  # e.g. the ndarray setters on ragged nested lists; not the database
        return out
    # what the database is given: the values the parameters hold after assignment (setters may convert to arrays)
    written = [o.p[pname] for o in objs]
    keys = [_path(o) for o in objs]
    tags = _class_labels(out, col, written, "db")
    out.nontrivial = len(tags) >= 2 and len(objs) >= 2
    if _excluded(out, col, written, "db", case):
        return out
    f = features(written)
    _attempt(out, col, f)
    fn = "c05_l2_%d.h5" % os.getpid()
    if os.path.exists(fn):
        os.remove(fn)
    db = Database(fn, "w")
    db.open()
    try:
        try:
            db.writeToDB(r)
        except Exception:  # noqa: BLE001  (any error while writing is a rejection)
            out.rejected = True
            out.label("rejected:%s%s" % (col["cls"], "+none" if f["none"] else ""))
            return out
        try:
            r2 = db.load(0, 0, cs=cs, bp=bp)
        except Exception as exc:  # noqa: BLE001
            _read_failure(out, "l2_reactor", written, "db", exc)
            return out
        loaded = {}
        for o in [r2.core] + list(r2.core) + r2.core.getBlocks() + [c for b in r2.core.getBlocks() for c in b]:
            loaded[_path(o)] = o
        missing = [k for k in keys if k not in loaded]
        if not out.check(not missing, "l2_reactor/object-missing-after-load", lambda: "objects %r not found after load" % (missing[:3],)):
            return out
        read = [loaded[k].p[pname] for k in keys]
        # an unassigned object contributes the definition's default (0.0 for some shapes' massHmBOL): the column then
        # mixes kinds through the harness' doing and is judged by numerical equality only
        defaulted = any(v is None and w is not None for v, w in zip(values, written))
        if defaulted:
            out.label("default-filled")
        _judge(out, "l2_reactor", written, read, "db", strict=not defaulted and _strict_kind(col, written))
    finally:
        db.close(True)
        if os.path.exists(fn):
            os.remove(fn)
    return out


# --------------------------------------------------------------------------------------------
# part flags: FlagSerializer._packImpl -> HDF5 -> _unpackImpl with two fresh Flag classes


def _flag_spec():
    """How the fields of one Flag class are registered: class body first, then extend() calls."""
    return st.fixed_dictionaries(
        {
            # number of fields in the class body, then in each extend() call (cycled; at most 4 calls)
            "sizes": st.lists(st.integers(1, 6), min_size=1, max_size=4),
            "bodyAll": st.booleans(),  # True: every field in the class body (no extend() call)
            # which fields get an explicit single-bit value instead of auto() (cycled over the fields)
            "explicit": _weighted((2, st.just([False])), (3, st.lists(st.booleans(), min_size=1, max_size=8)), (1, st.just([True]))),
            "perm": st.lists(st.integers(0, 1000), min_size=1, max_size=6),  # which bit of the call's window each explicit field takes
            "split": st.booleans(),  # explicit and auto() fields of one window through two extend() calls
        }
    )


def flags_strategy(tier):
    k = st.integers(1, 70)
    return st.fixed_dictionaries(
        {
            # (armi's own Flags has 66 fields and plugin flags come after: bit positions >= 64 are the normal case)
            "k": _weighted((2, st.integers(1, 12)), (1, k), (3, st.integers(65, 90))),
            "wperm": st.lists(st.integers(0, 1000), min_size=1, max_size=12),
            "rperm": st.one_of(st.none(), st.lists(st.integers(0, 1000), min_size=1, max_size=12)),
            "mode": st.sampled_from(["same-class", "same-order", "permuted", "permuted", "extended", "extended", "extended"]),
            "extra": st.integers(0, 12),
            "extraLate": st.booleans(),
            "drop": st.lists(st.integers(0, 89), max_size=4),
            "wspec": _flag_spec(),
            "rspec": _flag_spec(),
            "values": st.lists(st.one_of(st.integers(0, 2**90), st.integers(0, 255), st.integers(0, 6).map(lambda b: 1 << b), st.integers(60, 89).map(lambda b: 1 << b),
                                        st.tuples(st.integers(0, 2**20), st.integers(64, 89)).map(lambda t: t[0] | (1 << t[1]))), min_size=1, max_size=12),
        }
    )


def _order(names, perm):
    if perm is None:
        return list(names)
    idx = sorted(range(len(names)), key=lambda i: (perm[i % len(perm)] * 31 + i * 7) % 1009)
    return [names[i] for i in idx]


def _build_flag_class(clsname, names, spec, tail=()):
    """A fresh Flag class whose fields ``names`` (+ ``tail``, always through a last extend() of auto() fields) are
    registered as ``spec`` says.

    Every registration call covers a *window* of the next len(call) bit positions; the explicit fields of the call take
    bits of that window (in any order, so registration order and numeric order differ), the auto() fields are left to
    armi.  As auto() hands out the lowest unused values, the class stays dense after every window: explicit values are
    single bits, never collide and never leave a hole (what armi.reactor.flags.Flags and defineFlags plugins do).
    Returns (class, info).
    """
    from armi.utils.flags import Flag, auto

    names = list(names)
    chunks = []
    if spec["bodyAll"] or not names:
        chunks.append(names)
    else:
        sizes = spec["sizes"]
        i = j = 0
        while i < len(names):
            n = sizes[j % len(sizes)] if j < 4 else len(names) - i
            chunks.append(names[i : i + n])
            i += n
            j += 1
    info = {"explicit": 0, "explicitLate": 0, "calls": 0, "nextFreeBit": False}
    cls = None
    m = 0
    fi = 0
    for ci, chunk in enumerate(chunks):
        s_ = len(chunk)
        expl = [bool(spec["explicit"][(fi + t) % len(spec["explicit"])]) for t in range(s_)]
        fi += s_
        offsets = _order(list(range(s_)), spec["perm"])
        fields = {}
        taken = []
        for nm, e in zip(chunk, expl):
            if e:
                off = offsets[len(taken)]
                taken.append(off)
                fields[nm] = 1 << (m + off)
            else:
                fields[nm] = auto()
        info["explicit"] += len(taken)
        if ci == 0:
            cls = type(Flag)(clsname, (Flag,), dict(fields))
        else:
            info["explicitLate"] += len(taken)
            if taken and min(taken) == 0:
                info["nextFreeBit"] = True
            ex = {k_: v for k_, v in fields.items() if isinstance(v, int)}
            au = {k_: v for k_, v in fields.items() if not isinstance(v, int)}
            if spec["split"] and ex and au:
                cls.extend(ex)
                cls.extend(au)
                info["calls"] += 2
            else:
                cls.extend(fields)
                info["calls"] += 1
        m += s_
    if tail:
        cls.extend({nm: auto() for nm in tail})  # the way plugins extend the flags after definition
        info["calls"] += 1
    return cls, info


def _bits_state(cls):
    """'dense' / 'sparse' / 'collide' for the values of a Flag class."""
    vals = sorted(cls.fields().values())
    if len(set(vals)) != len(vals):
        return "collide"
    return "dense" if vals == [1 << i for i in range(len(vals))] else "sparse"


def flags_execute(case):
    np = _np()
    from armi.reactor.composites import FlagSerializer

    from armi.bookkeeping.db.database import Database

    out = Out()
    k = case["k"]
    base = ["F%02d" % i for i in range(k)]
    wnames = _order(base, case["wperm"])
    W, winfo = _build_flag_class("C05Writer", wnames, case["wspec"])
    mode = case["mode"]
    rinfo = winfo
    dropped = set()
    if mode == "same-class":
        R = W
    else:
        late = []
        if mode == "same-order":
            rnames = list(wnames)
        else:
            rnames = _order(wnames, case["rperm"] or [3, 1, 2])
        if mode == "extended":
            dropped = {wnames[d % k] for d in case["drop"]}
            rnames = [nm for nm in rnames if nm not in dropped]  # unknown to the reader: added on the fly by unpack
            extra = ["X%02d" % i for i in range(case["extra"])]
            if case["extraLate"]:
                late = extra
            else:
                rnames = _order(rnames + extra, case["rperm"])
        rspec = case["wspec"] if mode == "same-order" else case["rspec"]
        R, rinfo = _build_flag_class("C05Reader", rnames, rspec, tail=late)
    out.label("mode:" + mode, "width:%d" % W.width())
    # documented: extend() keeps the values unique (I_ARMI_FLAG_EXTEND0); dense positions are what width()/to_bytes need
    for who, cls in (("writer", W), ("reader", R)):
        state = _bits_state(cls)
        if state == "collide":
            out.fail("flags/extend-values-collide", "%s class built through the class body + extend() has colliding values: %r"
                     % (who, sorted(cls.fields().items(), key=lambda kv: kv[1])))
            return out
        if state == "sparse":
            out.label("skipped:%s-bits-not-dense" % who)
            return out
    if winfo["explicit"]:
        out.label("explicit-values:writer")
    if rinfo["explicit"] and R is not W:
        out.label("explicit-values:reader")
    if rinfo["explicitLate"] and R is not W:
        out.label("explicit-through-extend:reader")
    for who, cls in (("writer", W), ("reader", R)):
        if [nm for nm, _v in sorted(cls.fields().items(), key=lambda kv: kv[1])] != list(cls.fields()) and (who == "writer" or R is not W):
            out.label("%s-registration-order-not-numeric" % who)
    if dropped:
        out.label("unknown-to-reader")
        if rinfo["explicitLate"]:
            out.label("unknown-to-reader+explicit-through-extend")
            if rinfo["nextFreeBit"]:
                out.label("unknown-to-reader+explicit-on-next-free-bit")
    masks = [v % (1 << k) for v in case["values"]]
    written = [sorted(nm for nm, val in W.fields().items() if m & val) for m in masks]
    data = [W(m) for m in masks]
    rf = R.fields()
    reordered = R is not W and any(rf.get(nm) != val for nm, val in W.fields().items())
    out.nontrivial = reordered and any(masks)
    if reordered:
        out.label("bit-positions-differ")
        if any(m >> 64 for m in masks):
            out.label("bit-positions-differ+value-with-bit>=64")
    packed, attrs = FlagSerializer._packImpl(data, W)
    out.check(packed.dtype == np.uint8 and packed.shape == (len(data), W.width()), "flags/packed-layout",
              lambda: "packed %r %r" % (packed.dtype, packed.shape))
    attrs = dict(attrs)
    attrs["serializerVersion"] = FlagSerializer.version
    group = _h5group()
    try:
        ds = group.create_dataset("flags", data=packed, compression="gzip", track_order=True)
        Database._writeAttrs(ds, group, attrs)
        group.file.flush()
        dset = group["flags"]
        raw = dset[:]
        got = Database._resolveAttrs(dset.attrs, group)
        back = FlagSerializer._unpackImpl(raw, dset.attrs["serializerVersion"], got, R)
    finally:
        _drop(group)
    out.check(len(back) == len(data) and all(isinstance(b, R) for b in back), "flags/count-or-type",
              lambda: "%d values written, read %r" % (len(data), back))
    read = [sorted(nm for nm, val in R.fields().items() if int(b) & val) for b in back]
    out.check(read == written, "flags/names-changed", lambda: "writer fields %r reader fields %r: written %r read %r"
              % (sorted(W.fields().items(), key=lambda kv: kv[1]), sorted(R.fields().items(), key=lambda kv: kv[1]), written, read))
    state = _bits_state(R)
    out.check(state != "collide", "flags/reader-bits-collide",
              lambda: "reader class values after unpack %r" % (sorted(R.fields().items(), key=lambda kv: kv[1]),))
    out.check(state != "sparse", "flags/reader-bits-not-dense",
              lambda: "reader class values after unpack %r" % (sorted(R.fields().values()),))
    return out


PARTS = [
    Part("l0_sentinel", sentinel_execute, strategy=sentinel_strategy, budget={"quick": 1200, "thorough": 40000},
         procs={"quick": 2, "thorough": 8},
         rule="Hypothesis: scalar columns of every int/uint width, float width, bool, str (Python and NumPy scalars), equally "
              "shaped n-d arrays, mixed-kind scalars; any None pattern; layout.replaceNonesWithNonsense -> "
              "replaceNonsenseWithNones in memory; non-trivial = some but not all entries None; oracle: same values, kinds, "
              "unset positions (NaN = unset)"),
    Part("l0_pack", pack_execute, strategy=pack_strategy, budget={"quick": 2400, "thorough": 90000},
         procs={"quick": 4, "thorough": 16},
         rule="Hypothesis: columns of 8 classes (scalar, fixed n-d, ragged, scalar among sequences, inner-ragged, dict[str,float], "
              "mixed-kind scalars/sequences) x 18 dtypes x list/tuple/ndarray forms x None patterns; np.array / 1-D object array / "
              "JaggedArray -> packSpecialData -> real h5py dataset + _writeAttrs -> _resolveAttrs -> unpackSpecialData; "
              "non-trivial = column mixes >= 2 of {None, ragged, n-d, non-default dtype, dict, mixed kind}; oracle: documented normal form equal"),
    Part("l1_database", l1_execute, strategy=l1_strategy, budget={"quick": 2000, "thorough": 70000},
         procs={"quick": 6, "thorough": 16},
         rule="Hypothesis: 1-3 such columns + a Flags column assigned to the parameters of a probe Composite subclass (parameters "
              "with default None / 0 / 0.0 / '' / False, one with FlagSerializer), real Database._writeParams -> HDF5 group -> "
              "Database._readParams into fresh objects; non-trivial as in l0_pack; oracle: documented normal form equal, all-unset "
              "column stores nothing, flag names equal, unassigned parameters keep their default"),
    Part("l2_reactor", l2_execute, strategy=l2_strategy, budget={"quick": 200, "thorough": 6000},
         procs={"quick": 4, "thorough": 16},
         rule="Hypothesis: a generated hex reactor (vp/gen/reactor.py, <= 7 assemblies x 2 blocks) and one column assigned to a real "
              "parameter of all blocks / components of one shape class / assemblies / the core (mgFlux, pinMgFluxes, linPowByPin, "
              "reactionRates, pinNum, detailedNDens with its ndarray setter, powerDecay, beta, ...), Database.writeToDB -> load; "
              "objects matched by name path; non-trivial as in l0_pack and >= 2 objects; oracle: documented normal form equal"),
    Part("flags", flags_execute, strategy=flags_strategy, budget={"quick": 1000, "thorough": 30000},
         procs={"quick": 2, "thorough": 8},
         rule="Hypothesis: two fresh armi.utils.flags.Flag classes with 1-70 fields mixing auto() and explicit single-bit values "
              "(dense overall; explicit values registered out of numeric order; fields given in the class body and through 0-5 "
              "extend() calls, explicit ones on the next free bit or further up); reader = same class / same order / permutation / "
              "permutation with dropped (unknown to the reader, added by unpack) and added fields; 1-12 flag values; _packImpl -> HDF5 "
              "dataset + flag_order attribute -> _unpackImpl; non-trivial = some flag sits on another bit in the reader and a value is "
              "non-zero; oracle: set of flag names of every value preserved, class values stay unique (and dense)"),
]
