"""C16 - retained state is restored exactly; parameter copies are equal and independent; read-only refuses.

Parts
-----
retain      generated reactors + tree-shaped programs of retain-state scopes (nested <= 4) whose bodies assign parameters
            of every kind, change compositions / temperatures / dimensions / grid pitch / block heights, fill and clear
            caches and take copy probes.  After EVERY scope exit the whole reactor is compared with the expectation
            ``entry snapshot inside the scoped subtree (kept parameters: value just before the exit), pre-exit snapshot
            outside of it``.
copies      deepcopy / pickle of objects at every level (of the original and of earlier copies): equal values, fresh and
            unique serial numbers for deep copies, mutating one tree leaves every other tree unchanged.
readonly    makeParametersReadOnly, then an assignment attempt (item and attribute form) on every parameter of every
            object; plus public mutators whose first effect is a parameter assignment.
readonly_all  the same over a fixed list of reactors (complete enumeration: every parameter definition of every object).
"""
import os

from hypothesis import strategies as st

from vp.gen import reactor as rg
from vp.runner import Out, Part

PROPERTY = "C16"
LEVEL = "exploration"
ASSUMPTIONS = [
    "equality is a passive per-object record built from vp.model.observe: type, name, serial number, child order, grid reduce() "
    "(unit steps, bounds, offset), locator kind/indices/owner, material class, temperatures, dimensions, number densities and the stored value of "
    "EVERY parameter (exact, NaN == NaN, 0 == 0.0), plus the content of the `cached` dictionaries of objects and materials; the "
    "observer is passive (no getArea/getVolume calls)",
    "the expectation after a scope exit is built from armi's own state: inside the scoped subtree the snapshot taken on entry, "
    "with every kept parameter definition (matched by identity in the object's paramDefs) taking its value just before the "
    "exit; everything outside the subtree equals its state just before the exit",
    "the keep-set is passed as Parameter definitions (as armi's own test and the docstring do); parameters change through "
    "assignment or the public mutators (setNumberDensity, setTemperature, setDimension, setHeight, changePitch); in-place "
    "edits of mutable values are only applied to parameters that no active scope keeps",
    "global coordinates are not compared in the retain part (they depend on grids of other objects); the grids themselves are, "
    "by identity: a grid object shared between a Cartesian block and its core is restored with whichever of them is in the scope; "
    "a linked dimension is compared by its target, not by the number it resolves to",
    "pickle copies carry the serial numbers of their source (documented: only deepcopy hands out a new one), so uniqueness is "
    "asserted for the original and all deep copies, and a deep copy must not reuse any serial number seen in the process so far",
    "read-only: 'refused' means RuntimeError (or ParameterError for a parameter without a public setter); setNumberDensity on a "
    "read-only reactor edits the density dictionary in place before its refused assignment: recorded (label), not asserted",
]

SIG_SHAPE = "retain/kept-array-compared-elementwise"
SIG_GRID = "retain/nested/grid-backup-single-slot"
SIG_MAT = "retain/component-scope/own-material-cache-leaks"
SIG_DERIVED = "retain/derived-volume-stale-after-scope"
# Known candidate defects are kept out of the search by construction (labels excluded:<sig>); a replay case may carry
# "noexclude": true to reproduce them (replays/C16/defect_*.json).
# all three were repaired in /repo (fix: commits d4f3b68, acb98ca, 92a38c4): the shapes are searched again
EXCLUDE_KNOWN = {SIG_SHAPE: False, SIG_GRID: False, SIG_MAT: False}
if os.environ.get("VP_C16_NOEXCLUDE"):  # debugging aid: "all" or a comma-separated list of signatures to search again
    _which = os.environ["VP_C16_NOEXCLUDE"]
    for _k in EXCLUDE_KNOWN:
        if _which == "all" or _k in _which.split(","):
            EXCLUDE_KNOWN[_k] = False

MAX_DEPTH = 4

# name, kind   (kinds: f float, i int, s str, b bool, xs cross-section letter, arr 1-D array, arr2 2-D array,
#               list python list, dict str->float, nd float parameter WITHOUT default)
TABLES = {
    "reactor": [("cycle", "i"), ("time", "f"), ("cycleLength", "f"), ("timeNode", "i")],
    "core": [("power", "f"), ("keff", "f"), ("betaComponents", "arr"), ("eigenvalues", "list"), ("axialMesh", "list"),
             ("maxPD", "f"), ("crMostValuablePrimaryRodLocation", "s"), ("fisFrac", "nd"), ("beta", "f"), ("betaDecayConstants", "arr")],
    "excore": [],
    "assembly": [("chargeTime", "f"), ("notes", "s"), ("multiplicity", "i"), ("powerDecay", "arr"), ("detailedNDens", "arr"),
                 ("orientation", "arr"), ("THmassFlowRate", "f"), ("nozzleType", "s")],
    "block": [("power", "f"), ("flux", "f"), ("xsType", "xs"), ("envGroup", "xs"), ("mgFlux", "arr"), ("pinMgFluxes", "arr2"),
              ("linPowByPin", "arr"), ("axialPowerProfile", "arr"), ("percentBuByPin", "list"), ("reactionRates", "dict"),
              ("fuelCladLocked", "b"), ("THhotChannelCladODT", "f"), ("pdens", "f"), ("pointsEdgeDpa", "arr"), ("buLimit", "f"),
              ("nPins", "i"),
              # same names as parameters of other levels (a kept definition of one class must not keep the namesake of another)
              ("percentBu", "f"), ("detailedNDens", "arr"), ("buRate", "f"), ("molesHmBOL", "f"), ("puFrac", "f"),
              ("reactionRates", "dict"), ("reactionRates", "dict")],  # (listed three times: weight of the only dict-valued block parameter)
    "component": [("percentBu", "f"), ("massHmBOL", "f"), ("pinPercentBu", "arr"), ("buRate", "nd"), ("zrFrac", "nd"),
                  ("detailedNDens", "arr"), ("numberDensities", "ndens"), ("temperatureInC", "T"), ("customIsotopicsName", "s"),
                  ("pinNum", "i"), ("molesHmBOL", "f"), ("pinNDens", "arr"), ("puFrac", "f")],
}
NAMESAKES = {n for lv, t in TABLES.items() for n, _ in t if any(n in dict(t2) for lv2, t2 in TABLES.items() if lv2 != lv)}
ARRAY_KINDS = ("arr", "arr2")
MUTABLE_KINDS = ("arr", "arr2", "list", "dict", "ndens")

RETAIN_KINDS = ["param", "param", "param", "keptassign", "keptassign", "keptassign", "unset", "inplace", "ndens", "temp", "pitch", "height",
                "dim", "cache", "clearcache", "probe"]
COPY_KINDS = ["param", "param", "unset", "inplace", "ndens", "temp", "pitch", "height", "dim"]
LEVELS = ["reactor", "core", "excore", "assembly", "block", "component"]


# =============================================================================================
# strategies


def _val():
    fl = st.floats(-1e6, 1e6, allow_nan=False).map(float)
    return st.fixed_dictionaries(
        {
            "f": st.one_of(fl, st.sampled_from([0.0, -0.0, 1.5, 1e-300, 3.0e15])),
            "sp": st.integers(0, 9),  # 8 -> NaN, 9 -> inf for scalar floats
            "i": st.integers(0, 10**6),
            "s": st.text(alphabet="abXY 01-_", max_size=8),
            "xs": st.sampled_from(list("ABCDEZ")),
            "b": st.booleans(),
            "arr": st.lists(fl, min_size=1, max_size=5),
            "arr2": st.tuples(st.integers(1, 3), st.integers(1, 3), st.lists(fl, min_size=9, max_size=9)).map(list),
            "d": st.lists(st.tuples(st.sampled_from(["nG", "nF", "n2n", "nA", "nP"]), fl).map(list), max_size=4),
        }
    )


def _op():
    return st.fixed_dictionaries(
        {
            "k": st.integers(0, 10**4),  # kind index into the enabled kinds of this program (swarm)
            "level": st.sampled_from(LEVELS + ["block", "component"]),
            "obj": st.integers(0, 10**6),
            "obj2": st.integers(0, 10**6),
            "up": st.sampled_from([0, 0, 0, 0, 0, 1, 2]),
            "pidx": st.sampled_from(list(range(240))),  # uniform (st.integers favours small numbers: the first table rows)
            "val": _val(),
            "T": st.floats(20.0, 700.0).map(lambda x: round(x, 2)),
            "factor": st.floats(0.1, 3.0).map(lambda x: round(x, 4)),
            "n": st.integers(0, 11),
        }
    )


def _keep():
    entry = st.tuples(st.sampled_from(LEVELS + ["block", "component"]), st.sampled_from(list(range(240)))).map(list)
    return st.one_of(st.lists(entry, min_size=1, max_size=4), st.lists(entry, min_size=1, max_size=2), st.just([]))


def _scope(depth):
    levels = ["same", "same", "core", "assembly", "block", "block", "component", "excore"] + (["reactor", "reactor"] if depth == 1 else [])
    return st.fixed_dictionaries(
        {"scope": st.sampled_from(levels), "obj": st.integers(0, 10**6), "keep": _keep(), "inherit": st.booleans(),
         "keepnd": st.sampled_from([False, False, True]), "keeparr": st.one_of(st.none(), st.integers(0, 10**6)), "body": _body(depth),
         # a sibling dimension of a block in the scope changes right BEFORE the scope opens (the derived-shape volume is then pending
         # recomputation) and the derived volume is read first thing inside the scope
         "predim": st.one_of(st.none(), st.none(), st.integers(0, 10**6)),
         # the body may end by an exception after ``raise`` items (modulo len + 1); it leaves this scope as a `with` block does and is
         # caught by the harness after passing through ``catch`` further enclosing scopes (the program then carries on there)
         "raise": st.one_of(st.none(), st.none(), st.none(), st.integers(0, 4)), "catch": st.sampled_from([0, 0, 1, 2])}
    )


def _body(depth):
    if depth >= MAX_DEPTH:
        return st.lists(_op(), min_size=1, max_size=4)
    item = st.one_of(_op(), _op(), _scope(depth + 1))
    # the first item of an outermost scope is usually another scope, so that nesting >= 2 is the common case
    first = st.one_of(_scope(depth + 1), _scope(depth + 1), _op()) if depth == 1 else item
    return st.tuples(first, st.lists(item, min_size=0, max_size=3)).map(lambda t: [t[0]] + t[1])


def _enabled(kinds):
    """Swarm: the operation kinds (with multiplicity = weight) that the ``k`` index of an operation selects from."""
    return st.lists(st.sampled_from(kinds), min_size=3, max_size=10)


def _specs(max_blocks, min_assems=1):
    """Reactor specs; one in three is a Cartesian core whose grid has a non-zero origin offset (quarter core without a centre
    cell; the blocks of a Cartesian core share that grid object, and the SFP grid is offset as well)."""
    general = rg.reactor_spec(max_rings=2, max_blocks=max_blocks, min_assems=min_assems)
    offset = rg.reactor_spec(geoms=("cartesian",), symmetries=["quarter reflective"], max_rings=2, max_blocks=max_blocks, min_assems=min_assems)
    return st.one_of(general, general, offset)


def retain_strategy(tier):
    return st.fixed_dictionaries(
        {
            "spec": _specs(3),
            "enabled": _enabled(RETAIN_KINDS).map(lambda kinds: kinds + ["keptassign", "keptassign", "pitch", "pitch", "height", "height"]),
            "pre": st.lists(_op(), max_size=3),
            "preset": st.one_of(st.none(), _val()),  # give every array/list/dict parameter of the tables a value first
            "program": st.lists(st.one_of(_scope(1), _scope(1), _scope(1), _op()), min_size=1, max_size=3),
        }
    )


# =============================================================================================
# snapshots


def _cache_rec(d):
    from vp.model import observe as ob

    return {str(k): ob.norm_value(v) for k, v in d.items()}


def _preorder(root):
    objs = []

    def walk(o):
        objs.append(o)
        for c in o:
            walk(c)

    walk(root)
    return objs


def _locator(o):
    """Passive locator record: kind, local indices and the owner of the grid (no global coordinates: they depend on the
    grids of other objects, and a detached copy may have none)."""
    from armi.reactor import grids

    loc = getattr(o, "spatialLocator", None)
    if loc is None:
        return None
    grid = loc.grid
    owner = grid.armiObject.name if grid is not None and grid.armiObject is not None else None
    if isinstance(loc, grids.MultiIndexLocation):
        idx = [tuple(float(x) for x in l.indices) for l in loc]
    else:
        idx = tuple(float(x) for x in loc.indices)
    return (type(loc).__name__, idx, owner)


GRID_CELLS = [(0, 0, 0), (1, 0, 0), (0, 1, 0), (2, 1, 0), (-1, 2, 0)]


def _grid_cells(o):
    """Origin offset and the centre coordinates of a few cells of the object's own grid (None without a grid)."""
    g = getattr(o, "spatialGrid", None)
    if g is None:
        return None
    rec = {"offset": [float(x) for x in g.offset]}
    coords = []
    for ijk in GRID_CELLS:
        try:
            coords.append([float(x) for x in g.getCoordinates(ijk)])
        except (IndexError, ValueError, KeyError) as e:  # a bounds-defined axis that is shorter than the probe index
            coords.append(type(e).__name__)
    rec["cells"] = coords
    return rec


def snapshot(root):
    """Flat (pre-order) list of passive per-object records of ``root`` and everything beneath it."""
    from armi.reactor.components import Component

    from vp.model import observe as ob

    flat = []

    def walk(o):
        rc = {"type": type(o).__name__, "name": o.name, "locator": _locator(o), "grid": ob.grid_record(o), "gridcells": _grid_cells(o),
              "nchildren": len(o)}
        if "serialNum" in o.p:
            rc["serialNum"] = o.p.serialNum
        rc["params"] = ob.params_record(o)
        if isinstance(o, Component):
            try:
                full = ob.component_record(o)
                comp = {k: full[k] for k in ("material", "Tinput", "Thot", "dims", "ndens")}
            except (TypeError, ValueError, AttributeError, KeyError) as e:  # state too broken to read: shows up as a difference
                comp = {"dims": {"unobservable": type(e).__name__}, "ndens": {}, "Thot": None}
            # a linked dimension is compared by its target (the number it resolves to belongs to the target's own record) and by
            # WHICH object the target is: a live child of the same block, identified by its serial number
            dims = {}
            for k, v in comp["dims"].items():
                if isinstance(v, tuple) and v and v[0] == "link":
                    tgt = o.p[k].getLinkedComponent()
                    sibling = o.parent is not None and any(x is tgt for x in o.parent)
                    v = v[:3] + ("child-of-the-same-block" if sibling else "not-a-child-of-the-block", tgt.p.serialNum)
                dims[k] = v
            comp["dims"] = dims
            rc["component"] = comp
        rc["cached"] = _cache_rec(o.cached)
        mat = getattr(o, "material", None)
        if mat is not None and hasattr(mat, "cached"):
            rc["matcached"] = _cache_rec(mat.cached)
        flat.append(rc)
        for c in o:
            walk(c)

    walk(root)
    return flat


def _values_view(flat):
    """What a copy must share with its source: parameter values (serial number aside), composition, grids, structure."""
    out = []
    for rec in flat:
        p = dict(rec["params"])
        p.pop("serialNum", None)
        comp = rec.get("component")
        if comp is not None:
            # (a copy's links point to the copied siblings: other serial numbers, and detached when a single component was copied)
            comp = dict(comp, dims={k: (v[:3] if isinstance(v, tuple) and v and v[0] == "link" else v) for k, v in comp["dims"].items()})
        out.append({"type": rec["type"], "params": p, "component": comp, "grid": rec["grid"], "nchildren": rec["nchildren"]})
    return out


def _serials(flat):
    return [rec.get("serialNum") for rec in flat]


def _bucket(difftext, kept_names=()):
    """Failing clause from the first differing path ('[12]/params/power: ...')."""
    import re

    path = difftext.split(":")[0]
    parts = [p for p in re.sub(r"\[\d+\]", "", path).split("/") if p]
    if not parts:
        return "structure", None
    if "unobservable" in difftext:
        return "component-unreadable", None
    if parts[0] == "params":
        name = parts[1] if len(parts) > 1 else None
        return ("kept-value-lost" if name in kept_names else "param-not-restored"), name
    if parts[0] == "component":
        sub = parts[1] if len(parts) > 1 else ""
        name = {"ndens": "numberDensities", "Thot": "temperatureInC"}.get(sub, parts[2] if len(parts) > 2 else sub)
        if name in kept_names:
            return "kept-value-lost", name
        return {"ndens": "number-densities", "Thot": "temperature", "dims": "dimension"}.get(sub, "component") + "-not-restored", name
    if parts[0] in ("cached", "matcached"):
        return "cache-leaked", None
    if parts[0] in ("grid", "gridcells"):
        return "grid-not-restored", None
    if parts[0] == "serialNum":
        return "serial-changed", None
    return parts[0] + "-changed", None


# =============================================================================================
# interpreter


class Stop(Exception):
    pass


def does_not_fit(e):
    """armi's documented refusals when the components of a block do not fit any more (Component._checkNegativeArea,
    DerivedShape._deriveVolumeAndArea, Block height checks): a precondition of the harness' operations, not a C16 matter."""
    return isinstance(e, ArithmeticError) or (isinstance(e, ValueError) and "Negative area/volume" in str(e))


class BodyError(Exception):
    """Raised by the harness inside a scope body at a generated point; ``levels`` = enclosing scopes it still passes through."""

    def __init__(self, levels):
        Exception.__init__(self, "generated error in a scope body")
        self.levels = levels


class Frame:
    __slots__ = ("idx", "defs", "depth", "entry", "grids")

    def __init__(self, idx, defs, depth):
        self.idx, self.defs, self.depth = idx, defs, depth
        self.entry = None
        self.grids = {}


class Interp:
    """Applies op records / scope trees to an armi tree rooted at ``root``."""

    def __init__(self, root, out, enabled, case, prefix="retain"):
        import collections

        from armi.reactor import assemblies, blocks, components, cores, reactors

        self.root = root
        self.out = out
        self.enabled = enabled
        self.noexclude = bool(case.get("noexclude"))
        self.prefix = prefix
        self.objs = _preorder(root)
        self.index = {id(o): i for i, o in enumerate(self.objs)}
        self.size = [0] * len(self.objs)
        for i in range(len(self.objs) - 1, -1, -1):
            self.size[i] = 1 + sum(self.size[self.index[id(c)]] for c in self.objs[i])
        self.level = []
        for o in self.objs:
            if isinstance(o, reactors.Reactor):
                lv = "reactor"
            elif isinstance(o, cores.Core):
                lv = "core"
            elif isinstance(o, assemblies.Assembly):
                lv = "assembly"
            elif isinstance(o, blocks.Block):
                lv = "block"
            elif isinstance(o, components.Component):
                lv = "component"
            else:
                lv = "excore"
            self.level.append(lv)
        self.frames = []
        self.counts = collections.Counter()
        self.locks = {}  # (object index, parameter name) -> (shape, owning frame depth)
        self.shape_trigger = set()
        self.mat_trigger = False
        self.grid_trigger = set()
        self.max_depth = 0
        self.nontrivial = False
        self.copies = []  # probes are kept alive until the end of the case
        self.touched = set()  # objects some operation assigned a parameter of
        self.inplace_only = set()  # components whose only change so far is an in-place edit of kept densities: later
        #                            operations go elsewhere when they can (see op_keptassign)
        self.seen_serials = set(_serials(snapshot(root)))

    # ---- helpers -----------------------------------------------------------------------------
    _defcache = {}
    _asbuilt = {}  # (serial number, dimension) -> as-built value; cleared per case by the execute functions

    def defs_of(self, o):
        """(ids of the definitions, names) of the parameter collection class of ``o``."""
        key = type(o.p)
        got = Interp._defcache.get(key)
        if got is None:
            got = Interp._defcache[key] = ({id(pd) for pd in o.p.paramDefs}, {pd.name for pd in o.p.paramDefs})
        return got

    def has_def(self, o, d):
        return id(d) in self.defs_of(o)[0]

    def excluded(self, sig):
        return EXCLUDE_KNOWN.get(sig) and not self.noexclude

    def subtree(self, i):
        return range(i, i + self.size[i])

    def covers(self, frame, i):
        return frame.idx <= i < frame.idx + self.size[frame.idx]

    def base(self, up):
        if not self.frames:
            return 0
        k = len(self.frames) - 1 - up
        return self.frames[k].idx if k >= 0 else 0

    def pick(self, level, idx, base, pred=None):
        cand = [i for i in self.subtree(base) if (level == "any" or self.level[i] == level) and (pred is None or pred(self.objs[i]))]
        if not cand:
            return None
        if self.inplace_only:
            cand = [i for i in cand if i not in self.inplace_only] or cand
        return cand[idx % len(cand)]

    def table(self, i):
        names = self.defs_of(self.objs[i])[1]
        return [(n, k) for n, k in TABLES[self.level[i]] if n in names]

    def keepers(self, i, name):
        """Active frames that cover object i and keep its parameter ``name`` (outermost first)."""
        o = self.objs[i]
        if name not in self.defs_of(o)[1]:
            return []
        d = o.p.paramDefs[name]
        return [f for f in self.frames if self.covers(f, i) and any(d is x for x in f.defs)]

    def make_value(self, kind, val, o, op):
        import numpy as np

        if kind in ("f", "nd"):
            return float("nan") if val["sp"] == 8 else float("inf") if val["sp"] == 9 else val["f"]
        if kind == "i":
            return val["i"]
        if kind == "s":
            return val["s"]
        if kind == "b":
            return val["b"]
        if kind == "xs":
            return val["xs"]
        if kind == "arr":
            return np.array(val["arr"], dtype=float)
        if kind == "arr2":
            n, m, flat = val["arr2"]
            return np.array(flat[: n * m], dtype=float).reshape(n, m)
        if kind == "list":
            return list(val["arr"])
        if kind == "dict":
            return {k: v for k, v in val["d"]}
        if kind == "ndens":
            cur = o.p.numberDensities
            keys = sorted(cur)
            new = {k: cur[k] * op["factor"] for k in keys}
            if keys and op["n"] % 3 == 0:
                new.pop(keys[op["obj2"] % len(keys)])
            return new
        if kind == "T":
            return float(op["T"])
        raise KeyError(kind)

    # ---- parameter assignment with the known-defect exclusion --------------------------------
    def assign(self, i, name, kind, value, partial=0):
        import numpy as np

        o = self.objs[i]
        keepers = self.keepers(i, name)
        if keepers and isinstance(value, np.ndarray) and partial:
            # a kept array that differs from the current one in a single element
            cur = getattr(o.p, "_p_" + name, None)
            if isinstance(cur, np.ndarray) and cur.size and cur.dtype.kind == "f":
                new = cur.copy()
                new.flat[partial % new.size] = value.flat[0]
                value = new
                self.counts["kept-array-one-element"] += 1
        if keepers and isinstance(value, np.ndarray):
            key = (i, name)
            lock = self.locks.get(key)
            if lock is None:
                self.locks[key] = (value.shape, keepers[0].depth)
            elif lock[0] != value.shape:
                if self.excluded(SIG_SHAPE):
                    value = np.resize(value, lock[0])
                    self.out.label("excluded:" + SIG_SHAPE)
                else:
                    self.shape_trigger.add(name)
        o.p[name] = value
        self.touched.add(i)
        self.counts["assign:" + kind] += 1
        if value is None:
            self.counts["assign:None"] += 1
        if keepers:
            self.counts["kept-assign"] += 1
            if len(self.frames) >= 2:
                self.nontrivial = True
                self.counts["kept-assign-nested"] += 1
                if keepers[-1].depth >= 2:
                    self.counts["kept-by-inner-scope"] += 1
                if len(keepers) >= 2:
                    self.counts["kept-by-two-scopes:" + ("array" if kind in ARRAY_KINDS else "other")] += 1

    # ---- operations ---------------------------------------------------------------------------
    def apply(self, op):
        kind = self.enabled[op["k"] % len(self.enabled)]
        try:
            getattr(self, "op_" + kind)(op, self.base(op["up"]))
        except (ArithmeticError, ValueError) as e:
            if not does_not_fit(e):
                raise
            # skipped and counted; whatever the operation did before armi refused stays (a scope has to undo that too)
            self.counts["does-not-fit:" + kind] += 1

    def scaled(self, c, d, factor):
        """New value of a plain dimension: ``factor`` times its AS-BUILT value (first value seen in this case), so that repeated
        changes stay within a few percent of the blueprint and the components keep fitting."""
        ref = Interp._asbuilt.setdefault((c.p.serialNum, d), c.p[d])
        return ref * factor

    def op_param(self, op, base, unset=False):
        i = self.pick(op["level"], op["obj"], base, pred=None)
        if i is None or not self.table(i):
            i = self.pick("any", op["obj"], base, pred=lambda o: True)
            if not self.table(i):
                return
        table = self.table(i)
        name, kind = table[op["pidx"] % len(table)]
        self._assign_kind(i, name, kind, op, unset)

    def _assign_kind(self, i, name, kind, op, unset=False):
        from armi.reactor import parameters

        o = self.objs[i]
        if unset:
            default = o.p.paramDefs[name].default
            if default is parameters.NoDefault or kind in ("ndens", "T"):
                return
            self.assign(i, name, kind, default)
            self.counts["unset"] += 1
            return
        self.assign(i, name, kind, self.make_value(kind, op["val"], o, op), partial=(1 + op["obj2"] if op["n"] % 2 == 1 else 0))

    def op_unset(self, op, base):
        self.op_param(op, base, unset=True)

    def op_keptassign(self, op, base):
        """Assign a parameter that an active scope keeps (object inside that scope and inside ``base``)."""
        targets = []
        for f in self.frames:
            for d in f.defs:
                targets.extend([(f, d)] * (3 if d.name == "numberDensities" else 1))
        if not targets:
            return self.op_param(op, base)
        if len(self.frames) >= 2 and op["n"] % 2 == 0:
            # an ARRAY parameter that the innermost scope and at least one enclosing scope both keep, assigned here (inside the
            # innermost scope) on an object nothing else was assigned on; later operations leave that object alone when they can
            inner = self.frames[-1]
            both = []
            for d in inner.defs:
                if sum(1 for f in self.frames if any(d is x for x in f.defs)) < 2:
                    continue
                for i in self.subtree(inner.idx):
                    if i in self.touched or i in self.inplace_only or not self.has_def(self.objs[i], d):
                        continue
                    kind = dict(TABLES[self.level[i]]).get(d.name)
                    if kind in ARRAY_KINDS and len(self.keepers(i, d.name)) >= 2:
                        both.append((i, d.name, kind))
            if both:
                i, name, kind = both[op["obj"] % len(both)]
                self._assign_kind(i, name, kind, op)
                self.inplace_only.add(i)
                self.counts["kept-array-by-nested-scopes-only-change"] += 1
                return
        f, d = targets[op["pidx"] % len(targets)]
        if op["n"] % 4 == 3:
            # a namesake: same parameter name on an object of another class inside the scope (not kept)
            clash = [i for i in self.subtree(f.idx) if not self.has_def(self.objs[i], d) and d.name in self.defs_of(self.objs[i])[1]
                     and d.name in dict(TABLES[self.level[i]])]
            if clash:
                i = clash[op["obj"] % len(clash)]
                self.counts["namesake-of-kept-assigned"] += 1
                return self._assign_kind(i, d.name, dict(TABLES[self.level[i]])[d.name], op)
        cand = [i for i in self.subtree(f.idx) if self.has_def(self.objs[i], d)]
        inner = [i for i in cand if base <= i < base + self.size[base]]
        cand = inner or cand
        if not cand:
            return self.op_param(op, base)
        if d.name == "numberDensities" and op["n"] % 3 != 0:
            # kept compositions edited through the in-place path (updateNumberDensities without wipe): nothing is assigned, the
            # method itself has to flag the collection as changed since the backup
            dense = [i for i in cand if len(self.objs[i].p.numberDensities) > 0 and i not in self.touched]
            if dense:
                i = dense[op["obj"] % len(dense)]
                c = self.objs[i]
                nucs = sorted(c.p.numberDensities)
                nuc = nucs[op["obj2"] % len(nucs)]
                if op["n"] % 2:
                    c.setNumberDensity(nuc, c.getNumberDensity(nuc) * (0.5 + op["factor"]))
                else:
                    c.updateNumberDensities({nuc: c.getNumberDensity(nuc) * (0.5 + op["factor"])})
                self.counts["kept-ndens-inplace-only"] += 1
                self.inplace_only.add(i)
                return self._kept_note(i, "numberDensities")
        i = cand[op["obj"] % len(cand)]
        kinds = dict(TABLES[self.level[i]])
        if d.name not in kinds:
            return self.op_param(op, base)
        self._assign_kind(i, d.name, kinds[d.name], op, unset=(op["n"] == 11))

    def op_inplace(self, op, base):
        import numpy as np

        i = self.pick(op["level"], op["obj"], base)
        if i is None:
            return
        table = [(n, k) for n, k in self.table(i) if k in MUTABLE_KINDS]
        if not table:
            return
        name, kind = table[op["pidx"] % len(table)]
        o = self.objs[i]
        try:
            cur = o.p[name]
        except Exception:  # noqa: BLE001  (never assigned)
            cur = None
        x = op["val"]["f"]
        if self.keepers(i, name) or cur is None or len(cur) == 0:
            return self._assign_kind(i, name, kind, op)
        if isinstance(cur, np.ndarray):
            cur.flat[op["obj2"] % cur.size] = x
        elif isinstance(cur, dict):
            keys = sorted(cur)
            cur[keys[op["obj2"] % len(keys)]] = abs(x) if kind == "ndens" else x
        else:
            cur[op["obj2"] % len(cur)] = x
        self.counts["inplace:" + kind] += 1

    def op_ndens(self, op, base):
        from armi.reactor.components import DerivedShape

        # (a DerivedShape needs its parent to know its area: a detached copy of one is not a valid target)
        i = self.pick("component", op["obj"], base,
                      pred=lambda c: len(c.p.numberDensities) > 0 and not (c.parent is None and isinstance(c, DerivedShape)))
        if i is None:
            return
        c = self.objs[i]
        nucs = sorted(c.p.numberDensities)
        nuc = nucs[op["obj2"] % len(nucs)]
        c.setNumberDensity(nuc, c.getNumberDensity(nuc) * op["factor"])
        self.touched.add(i)
        self.counts["ndens"] += 1
        self._kept_note(i, "numberDensities")

    def op_temp(self, op, base):
        i = self.pick("component", op["obj"], base)
        if i is None:
            return
        self.objs[i].setTemperature(op["T"])
        self.touched.add(i)
        self.counts["temp"] += 1
        self._kept_note(i, "temperatureInC")

    def _kept_note(self, i, name):
        if self.keepers(i, name):
            self.counts["kept-assign"] += 1
            if len(self.frames) >= 2:
                self.nontrivial = True
                self.counts["kept-assign-nested"] += 1

    def op_pitch(self, op, base):
        from armi.reactor import grids

        def pitched(o):
            return isinstance(o.spatialGrid, (grids.HexGrid, grids.CartesianGrid))

        i = None
        if op["n"] % 3 != 0:
            # a grid whose origin is offset (changePitch has to scale the offset with the pitch)
            i = self.pick("any", op["obj"], base, pred=lambda o: pitched(o) and bool(o.spatialGrid._offset.any()))
        if i is None:
            i = self.pick("any", op["obj"], base, pred=pitched)
        if i is None:
            return
        g = self.objs[i].spatialGrid
        if op["n"] % 4 == 1:
            # the origin offset is grid state backed up together with pitch and bounds: assign a new one (public setter)
            import numpy as np

            g.offset = np.array([round(op["factor"] * 3.0, 4), round(op["T"] / 100.0, 4), 0.0])
            self.counts["offset-assigned:" + self.level[i]] += 1
            if self.frames:
                self.counts["offset-assigned-in-scope"] += 1
            return
        if g._offset.any():
            self.counts["pitch-of-offset-grid"] += 1
            if self.frames:
                self.counts["pitch-of-offset-grid-in-scope"] += 1
        new = round(4.0 + 6.0 * op["factor"], 4)
        if isinstance(g, grids.HexGrid):
            g.changePitch(new)
        else:
            g.changePitch(new, round(new * (1.0 + 0.1 * (op["n"] % 3)), 4))
        self.counts["pitch:" + self.level[i]] += 1

    def op_height(self, op, base):
        """The axial mesh of an assembly changes through armi's own calls: Block.setHeight (-> calculateZCoords),
        Assembly.setBlockHeights / setBlockMesh, one prescribed axial expansion."""
        how = op["n"] % 6
        if how >= 2:
            ia = self.pick("assembly", op["obj"], base, pred=lambda a: len(a) > 0)
            if ia is not None:
                a = self.objs[ia]
                f = 0.6 + 0.4 * op["factor"]
                if how == 2:
                    a.setBlockHeights([round(b.getHeight() * f, 4) for b in a])
                    self.counts["height:setBlockHeights"] += 1
                elif how == 3:
                    tops, z = [], 0.0
                    for b in a:
                        z += b.getHeight() * f
                        tops.append(round(z, 4))
                    mesh = [None] * (1 + max([int(b.p.topIndex) for b in a] + [len(tops) - 1]))
                    for b, t in zip(a, tops):
                        if 0 <= int(b.p.topIndex) < len(mesh):
                            mesh[int(b.p.topIndex)] = t
                    a.setBlockMesh(mesh, conserveMassFlag=bool(op["obj2"] % 2))
                    self.counts["height:setBlockMesh"] += 1
                else:
                    self.axial_expansion(a, op)
                if self.frames:
                    self.counts["axial-mesh-changed-in-scope"] += 1
                return
        i = self.pick("block", op["obj"], base)
        if i is None:
            return
        self.objs[i].setHeight(round(5.0 + 20.0 * op["factor"], 3))
        self.counts["height"] += 1
        if self.frames:
            self.counts["axial-mesh-changed-in-scope"] += 1

    def axial_expansion(self, a, op):
        """One prescribed axial expansion of the solid components of a block.  It only serves as a state change here (whatever it
        does - including a refusal half way - must be undone by the scope), so its own failures are recorded, not judged (C12)."""
        from armi.reactor.converters.axialExpansionChanger import AxialExpansionChanger
        from armi.reactor.flags import Flags

        blocks = [b for b in a]
        b = blocks[op["obj2"] % len(blocks)]
        comps = [c for c in b if not c.hasFlags(Flags.COOLANT) and type(c).__name__ != "DerivedShape" and c.containsSolidMaterial()]
        if not comps:
            return
        try:
            AxialExpansionChanger().performPrescribedAxialExpansion(a, comps, [0.002 + 0.01 * (op["pidx"] % 5)] * len(comps), setFuel=True)
            self.counts["height:axial-expansion"] += 1
        except Exception as e:  # noqa: BLE001
            self.counts["height:axial-expansion-raised:" + type(e).__name__] += 1

    def op_dim(self, op, base):
        from armi.reactor.components import component as compmod

        i = self.pick("component", op["obj"], base)
        if i is None:
            return
        c = self.objs[i]
        dims = []
        for d in c.DIMENSION_NAMES:
            if d in ("mult", "modArea"):
                continue
            v = c.p[d]
            if isinstance(v, compmod._DimensionLink) or v is None or not isinstance(v, (int, float)) or v <= 0.0:
                continue
            dims.append(d)
        if not dims:
            return
        d = dims[op["obj2"] % len(dims)]
        outer = d in ("op", "widthOuter", "lengthOuter")  # (the outermost shells are only 3 % thick)
        c.setDimension(d, self.scaled(c, d, 1.0 - (0.004 if outer else 0.01) * (1 + op["n"] % 3)))
        self.touched.add(i)
        self.counts["dim"] += 1
        self.check_links(c, d)

    def derived_of(self, i):
        from armi.reactor.components import DerivedShape

        for c in self.objs[i]:
            if isinstance(c, DerivedShape):
                return c
        return None

    def pending_dimension_change(self, idx, k):
        """Shrink one plain dimension of a sibling of the derived-shape component of a block inside subtree(idx); nobody reads the
        derived volume afterwards.  Returns the block's index (None: no such block)."""
        from armi.reactor.components import component as compmod

        blocks = [i for i in self.subtree(idx) if self.level[i] == "block" and self.derived_of(i) is not None]
        if not blocks:
            return None
        i = blocks[k % len(blocks)]
        cands = []
        for c in self.objs[i]:
            if c is self.derived_of(i):
                continue
            for d in ("od", "op", "widthOuter"):
                if d in c.DIMENSION_NAMES:
                    v = c.p[d]
                    if not isinstance(v, compmod._DimensionLink) and isinstance(v, (int, float)) and v > 0.0:
                        cands.append((c, d))
        if not cands:
            return None
        c, d = cands[k % len(cands)]
        c.setDimension(d, self.scaled(c, d, 0.9875 if c.p[d] != self.scaled(c, d, 0.9875) else 0.992))
        self.counts["dimension-changed-right-before-scope"] += 1
        return i

    def check_derived(self, frame, what):
        """After a scope: the derived-shape component of every block in the scope serves the volume / area that follow from the
        current (restored) state - compared with a recomputation forced through the block's own update flag."""
        for i in self.subtree(frame.idx):
            if self.level[i] != "block":
                continue
            d = self.derived_of(i)
            b = self.objs[i]
            if d is None or b.parent is None:
                continue
            try:
                served = (float(d.getVolume()), float(d.getArea()))
                b.derivedMustUpdate = True
                fresh = (float(d.getVolume()), float(d.getArea()))
            except (ValueError, ArithmeticError) as e:  # the block's components do not fit any more (documented refusal)
                if not does_not_fit(e):
                    raise
                self.counts["does-not-fit:derived-check"] += 1
                continue
            self.counts["derived-checked"] += 1
            if any(abs(x - y) > 1e-10 * max(abs(x), abs(y)) for x, y in zip(served, fresh)):
                self.out.fail(SIG_DERIVED, "%s: block %r serves derived-shape (%s) volume/area %r, recomputed from the restored dimensions %r"
                              % (what, b.name, d.name, served, fresh))
                raise Stop()

    def check_links(self, c, d):
        """Every sibling dimension linked to (c, d) resolves to c's current value."""
        from armi.reactor.components import component as compmod

        if c.parent is None:
            return
        want = c.getDimension(d, cold=True)
        for sib in c.parent:
            for dn in sib.DIMENSION_NAMES:
                raw = sib.p[dn]
                if isinstance(raw, compmod._DimensionLink) and raw[1] == d and raw[0].name == c.name:
                    got = sib.getDimension(dn, cold=True)
                    self.counts["link-followed"] += 1
                    if got != want or raw[0] is not c:
                        self.out.fail(self.prefix + "/link-does-not-follow-its-target",
                                      "%s.%s is linked to %s.%s: after %s.%s was set to %r the link gives %r (target is the sibling itself: %s)"
                                      % (sib.name, dn, c.name, d, c.name, d, want, got, raw[0] is c))
                        raise Stop()

    def op_cache(self, op, base):
        how = op["n"] % 6
        if how == 1 and self.level[0] == "reactor":
            i = self.pick("block", op["obj"], base, pred=lambda b: b.parent is not None and any(type(c).__name__ == "DerivedShape" for c in b))
            if i is not None:
                try:
                    self.derived_of(i).getVolume()
                    self.counts["cache:derived-volume"] += 1
                except (ValueError, ArithmeticError) as e:
                    if not does_not_fit(e):
                        raise
                    self.counts["does-not-fit:derived-read"] += 1
                return
        if how in (0, 1):
            i = self.pick("block", op["obj"], base, pred=lambda b: b.parent is not None)
            if i is not None and self.root is self.objs[0] and self.level[0] == "reactor":
                self.objs[i].getArea()
                self.counts["cache:block-area"] += 1
                return
        if how in (2, 3):
            i = self.pick("component", op["obj"], base)
            if i is not None and any(f.idx == i for f in self.frames) and self.excluded(SIG_MAT):
                # known defect: a scope opened directly on a component does not back up that component's own material
                self.out.label("excluded:" + SIG_MAT)
            elif i is not None:
                c = self.objs[i]
                if any(f.idx == i for f in self.frames):
                    self.mat_trigger = True
                c.material.getProperty("pseudoDensity", Tc=c.temperatureInC if how == 2 else op["T"])
                self.counts["cache:material"] += 1
                return
        i = self.pick("any", op["obj"], base)
        self.objs[i]._setCache("vp%d" % (op["n"] % 3), op["val"]["arr"] if how == 4 else op["val"]["f"])
        self.counts["cache:set"] += 1

    def op_clearcache(self, op, base):
        i = self.pick(op["level"], op["obj"], base)
        if i is None:
            i = base
        self.objs[i].clearCache()
        self.counts["clearcache"] += 1

    def op_probe(self, op, base):
        import copy
        import pickle

        from vp.model import observe as ob

        i = self.pick(op["level"], op["obj"], base)
        if i is None:
            i = base
        o = self.objs[i]
        how = "deepcopy" if op["n"] % 2 == 0 else "pickle"
        before = snapshot(o)
        whole_before = snapshot(self.root) if op["n"] % 4 < 2 else None
        o2 = copy.deepcopy(o) if how == "deepcopy" else pickle.loads(pickle.dumps(o, (2, 4, pickle.HIGHEST_PROTOCOL)[op["obj2"] % 3]))
        self.copies.append(o2)
        self.counts["probe:%s:%s" % (how, self.level[i])] += 1
        if self.frames:
            self.counts["probe-in-scope"] += 1
        after = snapshot(o)
        new = snapshot(o2)
        d = ob.diff(_values_view(before), _values_view(new), limit=3)
        for x in d:
            self.out.fail("%s/probe/%s-values-differ" % (self.prefix, how), "%s of %s %r: %s" % (how, self.level[i], o.name, x))
        if whole_before is not None:
            d = ob.diff(whole_before, snapshot(self.root), limit=3)
        else:
            d = ob.diff(before, after, limit=3)
        for x in d:
            self.out.fail("%s/probe/%s-changes-source" % (self.prefix, how), "%s of %s %r changed the source: %s" % (how, self.level[i], o.name, x))
        if how == "deepcopy":
            self.check_fresh(_serials(new), "%s of %s %r" % (how, self.level[i], o.name))
        self.seen_serials.update(s for s in _serials(new) if s is not None)

    def check_fresh(self, serials, what):
        if len(set(serials)) != len(serials):
            self.out.fail(self.prefix + "/copy/serial-duplicated-inside-copy", "%s: serial numbers %r" % (what, sorted(serials)))
        shared = sorted(set(serials) & self.seen_serials)
        if shared:
            self.out.fail(self.prefix + "/copy/serial-reused", "%s: serial numbers %r already belong to live objects" % (what, shared[:6]))

    # ---- scopes ---------------------------------------------------------------------------------
    def grid_state(self, o):
        from vp.model import observe as ob

        return (ob.grid_record(o), _grid_cells(o))

    def resolve_keep(self, idx, keep):
        """Parameter definitions named by the keep list, looked up on objects of the scoped subtree."""
        defs = []
        for lvl, pidx in keep:
            tab = TABLES.get(lvl) or []
            holder = None
            if tab:
                holder = self.pick(lvl, 0, idx)
            if holder is None:
                lvl = self.level[idx]
                tab = TABLES[lvl]
                holder = idx
            tab = [(n, k) for n, k in tab if n in self.defs_of(self.objs[holder])[1]]
            if pidx % 4 == 0:
                # prefer names that another level also defines (see op_keptassign: namesakes are not kept)
                tab = [(n, k) for n, k in tab if n in NAMESAKES] or tab
            if not tab:
                continue
            name = tab[pidx % len(tab)][0]
            d = self.objs[holder].p.paramDefs[name]
            if not any(d is x for x in defs):
                defs.append(d)
        return defs

    def run_items(self, items, raise_at=None, levels=0):
        for n, item in enumerate(items):
            if n == raise_at:
                raise BodyError(levels)
            if "body" in item:
                try:
                    self.run_scope(item)
                except BodyError:
                    if self.frames:
                        raise  # still inside a scope it has to leave
                    # caught at the top level: the program carries on
            else:
                self.apply(item)
        if raise_at is not None and raise_at >= len(items):
            raise BodyError(levels)

    def run_scope(self, item):
        import numpy as np

        from vp.model import observe as ob

        base = self.base(0)
        if item["scope"] == "same" or self.level[base] == item["scope"]:
            idx = base
        else:
            idx = self.pick(item["scope"], item["obj"], base)
            if idx is None:
                idx = base
        obj = self.objs[idx]
        depth = len(self.frames) + 1
        pending = None
        if item.get("predim") is not None:
            pending = self.pending_dimension_change(idx, item["predim"])
        # known defect: a grid that changed since the enclosing scope began loses that scope's backup when a nested scope
        # covering it is opened (single backup slot)
        # (grids are tracked by identity: Cartesian blocks share the grid object of their core)
        trigger = False
        for i in self.subtree(idx):
            g = self.objs[i].spatialGrid
            if g is None:
                continue
            for f in reversed(self.frames):
                if id(g) in f.grids:
                    if f.grids[id(g)] != self.grid_state(self.objs[i]):
                        trigger = True
                        if not self.excluded(SIG_GRID):
                            self.grid_trigger.add(id(g))
                    break
        if trigger and self.excluded(SIG_GRID):
            self.out.label("excluded:" + SIG_GRID)
            self.counts["scope-inlined"] += 1
            return self.run_items(item["body"])
        defs = self.resolve_keep(idx, item["keep"])
        if item.get("inherit") and self.frames:
            # a nested scope that also keeps what its enclosing scope keeps
            defs += [d for d in self.frames[-1].defs if not any(d is x for x in defs)]
            self.counts["keep-inherited"] += 1
        if item.get("keeparr") is not None:
            # the scope also keeps the array parameters its enclosing scopes keep (so that keep-sets overlap on arrays at several
            # depths); if there is none, one array parameter of some object of the subtree
            arrs = [d for f in self.frames for d in f.defs
                    if any(self.has_def(self.objs[i], d) and dict(TABLES[self.level[i]]).get(d.name) in ARRAY_KINDS for i in self.subtree(idx))]
            if not arrs:
                holders = [(i, n) for i in self.subtree(idx) for n, k in self.table(i) if k in ARRAY_KINDS]
                if holders:
                    i, n = holders[item["keeparr"] % len(holders)]
                    arrs = [self.objs[i].p.paramDefs[n]]
            for d in arrs:
                if not any(d is x for x in defs):
                    defs.append(d)
            self.counts["keep-array"] += 1
        if item.get("keepnd"):
            # the scope also keeps the component compositions (changed in place by setNumberDensity, see op_keptassign)
            holder = self.pick("component", item["obj"], idx)
            if holder is not None:
                d = self.objs[holder].p.paramDefs["numberDensities"]
                if not any(d is x for x in defs):
                    defs.append(d)
                self.counts["keep-numberDensities"] += 1
        frame = Frame(idx, defs, depth)
        frame.grids = {id(self.objs[i].spatialGrid): self.grid_state(self.objs[i]) for i in self.subtree(idx)
                       if self.objs[i].spatialGrid is not None}
        keepnames = sorted(d.name for d in frame.defs)
        self.counts["scope:" + self.level[idx]] += 1
        self.counts["keep:%d" % min(len(frame.defs), 3)] += 1
        self.max_depth = max(self.max_depth, depth)
        frame.entry = snapshot(obj)
        # shape locks of kept array parameters (see assign)
        for d in frame.defs:
            for i in self.subtree(idx):
                o = self.objs[i]
                if self.has_def(o, d) and (i, d.name) not in self.locks:
                    v = getattr(o.p, d.fieldName, None)
                    if isinstance(v, np.ndarray):
                        self.locks[(i, d.name)] = (v.shape, depth)
        ctx = obj.retainState(list(frame.defs))
        ctx.__enter__()
        self.frames.append(frame)
        if pending is not None:
            try:
                self.derived_of(pending).getVolume()
                self.counts["derived-read-in-scope-while-pending"] += 1
            except (ArithmeticError, ValueError) as e:
                if not does_not_fit(e):
                    raise
                self.counts["does-not-fit:derived-read"] += 1
        err = None
        try:
            raise_at = None if item.get("raise") is None else item["raise"] % (len(item["body"]) + 1)
            self.run_items(item["body"], raise_at, item.get("catch", 0))
        except BodyError as e:  # raised in this body or passing through from a nested scope
            err = e
            self.counts["scope-left-by-exception"] += 1
        finally:
            self.frames.pop()
        pre = snapshot(self.root)
        try:
            if err is None:
                ctx.__exit__(None, None, None)
            else:
                ctx.__exit__(type(err), err, err.__traceback__)  # what the `with` statement does when the body raises
        except ValueError as e:
            if self.shape_trigger and "broadcast" in str(e):
                self.out.fail(SIG_SHAPE, "leaving a scope on %s that keeps %s raised ValueError(%s): a kept array changed shape inside the scope"
                              % (self.level[idx], sorted(self.shape_trigger), e))
                raise Stop()
            raise
        for key in [k for k, v in self.locks.items() if v[1] >= depth]:
            del self.locks[key]
        post = snapshot(self.root)
        # ---- expectation
        expected = []
        for i in range(len(self.objs)):
            if not self.covers(frame, i):
                rec = dict(pre[i])
                g = self.objs[i].spatialGrid
                if g is not None and id(g) in frame.grids:
                    # the grid object is shared with an object inside the scope: it is restored with that object
                    rec["grid"], rec["gridcells"] = frame.grids[id(g)]
                    self.counts["shared-grid-outside"] += 1
                expected.append(rec)
                continue
            rec = dict(frame.entry[i - idx])
            o = self.objs[i]
            kept = [d for d in frame.defs if self.has_def(o, d)]
            if kept:
                params = dict(rec["params"])
                comp = dict(rec["component"]) if rec.get("component") is not None else None
                for d in kept:
                    if d.name in pre[i]["params"]:
                        params[d.name] = pre[i]["params"][d.name]
                    else:
                        params.pop(d.name, None)
                    if comp is not None:
                        if d.name == "numberDensities":
                            comp["ndens"] = pre[i]["component"]["ndens"]
                        elif d.name == "temperatureInC":
                            comp["Thot"] = pre[i]["component"]["Thot"]
                        elif d.name in comp["dims"]:
                            comp["dims"] = dict(comp["dims"])
                            comp["dims"][d.name] = pre[i]["component"]["dims"][d.name]
                rec["params"] = params
                if comp is not None:
                    rec["component"] = comp
            expected.append(rec)
        bad = 0
        for i in range(len(self.objs)):
            d = ob.diff(expected[i], post[i], limit=2)
            if not d:
                continue
            bad += 1
            inside = self.covers(frame, i)
            clause, name = _bucket(d[0], [x.name for x in frame.defs if self.has_def(self.objs[i], x)] if inside else ())
            if inside:
                sig = "%s/%s" % (self.prefix, clause)
                if clause == "grid-not-restored" and id(self.objs[i].spatialGrid) in self.grid_trigger:
                    sig = SIG_GRID
                elif clause in ("kept-value-lost", "param-not-restored") and name in self.shape_trigger:
                    sig = SIG_SHAPE
                elif clause == "cache-leaked" and self.mat_trigger and i == idx and "/matcached" in d[0]:
                    sig = SIG_MAT
            elif clause == "grid-not-restored" and id(self.objs[i].spatialGrid) in self.grid_trigger:
                sig = SIG_GRID  # the grid object is shared with an object inside the scope
            elif clause == "grid-not-restored" and id(self.objs[i].spatialGrid) in frame.grids:
                sig = "%s/grid-not-restored" % self.prefix  # same grid object as inside the scope: one root cause, one signature
            else:
                sig = "%s/outside-scope-changed/%s" % (self.prefix, clause)
            self.out.fail(sig, "after leaving scope #%d%s (depth %d) on %s %r keeping %s: %s %r %s: %s (expected != armi)"
                          % (self.counts["exits"], " BY AN EXCEPTION raised in its body" if err is not None else "", depth, self.level[idx], obj.name, keepnames, self.level[i], self.objs[i].name,
                             "inside" if inside else "OUTSIDE the scope", d[0]))
            if bad >= 3:
                break
        self.counts["exits"] += 1
        if bad:
            raise Stop()
        self.check_derived(frame, "after leaving scope #%d (depth %d) on %s %r" % (self.counts["exits"] - 1, depth, self.level[idx], obj.name))
        if err is not None and err.levels > 0 and self.frames:
            err.levels -= 1
            self.counts["exception-through-enclosing-scope"] += 1
            raise err  # not caught here: the enclosing scope is left by the same exception


# =============================================================================================
# part 1: retain-state programs


def retain_execute(case):
    Interp._asbuilt.clear()
    out = Out()
    cs, bp, r = rg.build(case["spec"])
    it = Interp(r, out, case["enabled"], case)
    try:
        if case.get("preset") is not None:
            for i, o in enumerate(it.objs):
                for name, kind in it.table(i):
                    if kind in ("arr", "arr2", "list", "dict"):
                        o.p[name] = it.make_value(kind, case["preset"], o, None)
            out.label("preset-arrays")
        for op in case.get("pre", []):
            it.apply(op)
        it.counts.clear()
        it.run_items(case["program"])
    except Stop:
        pass
    out.nontrivial = it.nontrivial
    out.label("geom:" + case["spec"]["geom"], "depth:%d" % it.max_depth)
    out.label(*["did:" + k for k in sorted(it.counts) if k != "exits"])
    out.label("exits:%d" % min(it.counts["exits"], 8))
    return out


# =============================================================================================
# part 2: copies


def copies_strategy(tier):
    step = st.fixed_dictionaries(
        {
            "how": st.sampled_from(["deepcopy", "deepcopy", "pickle", "copy"]),  # "copy" = copy.copy, components only (Component.__copy__)
            "proto": st.sampled_from([2, 4, 5]),
            "src": st.integers(0, 10**6),
            "level": st.sampled_from(["block", "assembly", "component", "core", "reactor", "block", "component", "excore"]),
            "obj": st.integers(0, 10**6),
            "side": st.sampled_from(["copy", "source", "other"]),
            "mutate": st.lists(_op(), min_size=1, max_size=4),
        }
    )
    return st.fixed_dictionaries(
        {
            "spec": _specs(2, min_assems=2),
            "enabled": _enabled(COPY_KINDS),
            "pre": st.lists(_op(), max_size=6),
            "steps": st.lists(step, min_size=1, max_size=4),
            # optional: the freshly built reactor is written to a real database; after 1..n copy steps it is loaded back in this
            # session (the loaded reactor joins the live trees) and an assembly of it is deep-copied at once
            "db": st.one_of(st.none(), st.none(), st.integers(0, 10**6)),
            # assemblies discharged to the spent fuel pool first (spec forced to have one): whole-reactor copies then carry pool contents
            "discharge": st.one_of(st.just([]), st.lists(st.integers(0, 10**6), min_size=1, max_size=2)),
        }
    )


def _check_reactor_copy(r2, how, out):
    """A copied reactor is ONE tree: what its ``excore`` collection hands out are its own children, and a retain-state scope on
    the copy covers the contents of its pool."""
    for key in sorted(r2.excore.keys()):
        s = r2.excore[key]
        if not (any(x is s for x in r2) and s.parent is r2):
            out.fail("copies/reactor-copy-excore-not-its-own-child",
                     "%s of a reactor: copy.excore[%r] (%d objects) is not one of the copy's children (parent %r)"
                     % (how, key, 1 + len(s.getChildren(deep=True)), s.parent))
            return
    pool = [a for key in sorted(r2.excore.keys()) for a in r2.excore[key]]
    if pool:
        out.label("reactor-copy-with-pool-contents:" + how)
        before = [a.p.chargeTime for a in pool]
        with r2.retainState():
            for k, a in enumerate(pool):
                a.p.chargeTime = 1234.5 + k  # a definite value (the current one may be NaN)
        after = [a.p.chargeTime for a in pool]
        if not all(x == y or (x != x and y != y) for x, y in zip(before, after)):
            out.fail("copies/reactor-copy-scope-misses-pool-contents", "%s of a reactor: chargeTime of the pool assemblies %r -> %r after a scope on the copy" % (how, before, after))


def _load(db, cs, bp, trees, kinds, seen, out, enabled, case, do_step):
    """Load the stored reactor back in this session; it joins the live trees.  Its objects carry the stored serial numbers (those
    of the original, which is still alive: the documented meaning of a load), so they are exempt from the uniqueness pool, but
    every deep copy made from now on must avoid them and all other live serial numbers."""
    from vp.model import observe as ob

    before_all = [snapshot(t.root) for t in trees]
    loaded = db.load(0, 0, cs=cs, bp=bp)
    for k, (t, b) in enumerate(zip(trees, before_all)):
        for x in ob.diff(b, snapshot(t.root), limit=2):
            out.fail("copies/database-load-changes-live-object", "loading the stored reactor changed tree %d (%s): %s" % (k, kinds[k], x))
    t2 = Interp(loaded, out, enabled, case, prefix="copies")
    seen.update(s for s in _serials(snapshot(loaded)) if s is not None)
    trees.append(t2)
    kinds.append("loaded")
    # at once: a deep copy of an assembly of the loaded reactor (and the usual checks on it)
    do_step({"how": "deepcopy", "proto": 2, "src": len(trees) - 1, "level": "assembly", "obj": case["db"], "side": "copy", "mutate": []})


def copies_execute(case):
    Interp._asbuilt.clear()
    import copy
    import pickle

    from vp.model import observe as ob

    out = Out()
    spec = dict(case["spec"], sfp=True) if case.get("discharge") else case["spec"]
    cs, bp, r = rg.build(spec)
    for k in case.get("discharge") or []:
        assems = list(r.core)
        if len(assems) < 2 or r.excore["sfp"].spatialGrid is None:
            break
        r.core.removeAssembly(assems[k % len(assems)], discharge=True)
        out.label("pool-occupied")
    if len(r.excore["sfp"]) if spec.get("sfp") else False:
        # the first copy is then one of the whole reactor, pool contents included
        case = dict(case, steps=[dict(case["steps"][0], level="reactor", src=0)] + list(case["steps"][1:]))
    enabled = case["enabled"]
    db = None
    fn = "c16_%d.h5" % os.getpid()  # relative: lives in the per-process scratch directory
    steps = list(case["steps"])
    load_at = None
    if case.get("db") is not None:
        from armi.bookkeeping.db.database import Database

        if os.path.exists(fn):
            os.remove(fn)
        db = Database(fn, "w")
        db.open()
        db.writeToDB(r)
        load_at = 1 + case["db"] % len(steps)  # at least one copy step lies between the write and the load ...
        steps[0] = dict(steps[0], how="deepcopy")  # ... and the first of them is a deep copy that stays alive
        out.label("db:write-copy-load-copy")
    first = Interp(r, out, enabled, case, prefix="copies")
    for op in case["pre"]:
        first.apply(op)
    trees = [first]  # one interpreter per live tree; [0] is the original reactor
    kinds = ["original"]
    seen = set(_serials(snapshot(r)))
    levels = set()

    def do_step(step):
        src = trees[step["src"] % len(trees)]
        i = src.pick(step["level"], step["obj"], 0)
        if i is None:
            i = src.pick("any", step["obj"], 0)
        o = src.objs[i]
        how = step["how"]
        if how == "copy" and src.level[i] != "component":
            how = "deepcopy"
        if step.get("level") == "reactor" and src.level[0] == "reactor":
            i, o = 0, src.objs[0]
        before_all = [snapshot(t.root) for t in trees]
        if how == "deepcopy":
            o2 = copy.deepcopy(o)
        elif how == "copy":
            o2 = copy.copy(o)
        else:
            o2 = pickle.loads(pickle.dumps(o, step["proto"]))
        if how == "copy":
            # the duplicate of a component reads every dimension like the original (its links keep their targets)
            for d in o.DIMENSION_NAMES:
                try:
                    a, b = o.getDimension(d, cold=True), o2.getDimension(d, cold=True)
                except Exception as e:  # noqa: BLE001
                    a, b = "readable", "raises " + type(e).__name__
                if not (a == b or (a != a and b != b)):
                    out.fail("copies/copy-dimension-differs", "copy.copy of component %r: dimension %s reads %r on the original and %r on the duplicate" % (o.name, d, a, b))
                    break
        if src.level[i] == "reactor":
            _check_reactor_copy(o2, how, out)
        levels.add(src.level[i])
        out.label("copy:%s:%s" % (how, src.level[i]), "of:" + kinds[step["src"] % len(trees)])
        what = "%s of %s %r (tree %d, %s)" % (how, src.level[i], o.name, step["src"] % len(trees), kinds[step["src"] % len(trees)])
        src_before = before_all[step["src"] % len(trees)][i : i + src.size[i]]
        new = snapshot(o2)
        for x in ob.diff(_values_view(src_before), _values_view(new), limit=3):
            out.fail("copies/%s-values-differ" % how, "%s: %s" % (what, x))
        for t, b in zip(trees, before_all):
            for x in ob.diff(b, snapshot(t.root), limit=2):
                out.fail("copies/%s-changes-live-object" % how, "%s changed tree %d: %s" % (what, trees.index(t), x))
        ser = _serials(new)
        if how in ("deepcopy", "copy"):
            if len(set(ser)) != len(ser):
                out.fail("copies/serial-duplicated-inside-copy", "%s: %r" % (what, sorted(ser)))
            shared = sorted(set(ser) & seen)
            if shared:
                out.fail("copies/serial-reused" + ("-after-database-load" if "loaded" in kinds else ""),
                         "%s: serial numbers %r already belong to live objects (trees: %s)" % (what, shared[:6], kinds))
        else:
            out.label("pickle-serial:" + ("same-as-source" if ser == _serials(src_before) else "different"))
        seen.update(ser)
        t2 = Interp(o2, out, enabled, case, prefix="copies")
        trees.append(t2)
        kinds.append(how)
        # ---- independence: mutate one tree, all the others must not move
        side = {"copy": t2, "source": src, "other": trees[step["obj"] % len(trees)]}[step["side"]]
        snaps = [snapshot(t.root) for t in trees]
        for op in step["mutate"]:
            side.apply(op)
        changed = ob.diff(snaps[trees.index(side)], snapshot(side.root), limit=1)
        if changed:
            out.label("mutation-visible")
        for k, t in enumerate(trees):
            if t is side:
                continue
            for x in ob.diff(snaps[k], snapshot(t.root), limit=2):
                out.fail("copies/not-independent/" + _bucket(x)[0].replace("-not-restored", "").replace("-changed", ""),
                         "after %s, changing tree %d (%s) also changed tree %d (%s): %s"
                         % (what, trees.index(side), kinds[trees.index(side)], k, kinds[k], x))

    def shallow_copies():
        """Deliberate: every case duplicates (copy.copy, Component.__copy__) one component WITH linked dimensions and one without;
        do_step compares the duplicate dimension by dimension (resolved values) and parameter by parameter with the original."""
        from armi.reactor.components import component as compmod

        comps = [i for i in range(len(first.objs)) if first.level[i] == "component"]
        linked = [i for i in comps if any(isinstance(first.objs[i].p[d], compmod._DimensionLink) for d in first.objs[i].DIMENSION_NAMES)]
        plain = [i for i in comps if i not in linked]
        k = case["steps"][0]["obj"]
        for group, label in ((linked, "with-linked-dimensions"), (plain, "without-links")):
            if not group:
                continue
            i = group[k % len(group)]
            out.label("copy.copy:" + label)
            do_step({"how": "copy", "proto": 2, "src": 0, "level": "component", "obj": comps.index(i), "side": "copy",
                     "mutate": case["steps"][0]["mutate"][:1]})

    try:
        shallow_copies()
        for n, step in enumerate(steps):
            if n == load_at:
                load_at = None
                _load(db, cs, bp, trees, kinds, seen, out, enabled, case, do_step)
            do_step(step)
        if load_at is not None:
            _load(db, cs, bp, trees, kinds, seen, out, enabled, case, do_step)
    finally:
        if db is not None:
            db.close(True)
            if os.path.exists(fn):
                os.remove(fn)
    # uniqueness over the original and all deep copies
    pool = {}
    for k, t in enumerate(trees):
        if kinds[k] in ("pickle", "loaded"):  # these legitimately carry the serial numbers of their source / stored original
            continue
        for s in _serials(snapshot(t.root)):
            if s in pool and pool[s] != k:
                out.fail("copies/serial-shared-by-live-objects", "serial number %r is carried by tree %d and tree %d" % (s, pool[s], k))
                break
            pool[s] = k
    out.nontrivial = len(case["steps"]) >= 2 and any(k != "original" for k in kinds[1:]) and len(levels) >= 1
    out.label("trees:%d" % len(trees))
    return out


# =============================================================================================
# part 3: read-only

RO_SPECS = [
    {"geom": "hex", "symmetry": "third periodic", "rings": 2, "pitch": 12.0, "heights": [10.0, 20.0, 15.0],
     "designs": [
         {"specifier": "IC", "name": "inner assem", "kinds": ["grid plate", "fuel", "plenum"], "mult": 7, "fill": 0.4, "enrich": [0.1, 0.12, 0.1],
          "zr": 0.1, "xs": ["A", "B", "C"], "thot": 500.0, "pinGrid": False},
         {"specifier": "OC", "name": "outer assem", "kinds": ["reflector", "control", "duct"], "mult": 19, "fill": 0.5, "enrich": [0.1, 0.1, 0.1],
          "zr": 0.06, "xs": ["A", "A", "D"], "thot": 420.0, "pinGrid": True}],
     "cells": [[0, 0, 0], [1, 0, 1]], "sfp": True},
    {"geom": "hex_corners_up", "symmetry": "full", "rings": 2, "pitch": 9.5, "heights": [25.0],
     "designs": [
         {"specifier": "IC", "name": "inner assem", "kinds": ["fuel"], "mult": 1, "fill": 0.3, "enrich": [0.2], "zr": 0.1, "xs": ["A"],
          "thot": 600.0, "pinGrid": True},
         {"specifier": "OC", "name": "outer assem", "kinds": ["control"], "mult": 7, "fill": 0.6, "enrich": [0.2], "zr": 0.1, "xs": ["B"],
          "thot": 350.0, "pinGrid": False}],
     "cells": [[0, 0, 0], [1, 0, 1], [0, 1, 1], [-1, 1, 0], [-1, 0, 1]], "sfp": False},
    {"geom": "cartesian", "symmetry": "quarter reflective through center", "rings": 2, "pitch": 15.0, "heights": [12.0, 30.0],
     "designs": [
         {"specifier": "IC", "name": "inner assem", "kinds": ["fuel", "reflector"], "mult": 37, "fill": 0.45, "enrich": [0.05, 0.05], "zr": 0.08,
          "xs": ["A", "C"], "thot": 550.0, "pinGrid": False}],
     "cells": [[0, 0, 0], [1, 0, 0], [0, 1, 0], [1, 1, 0]], "sfp": True},
]


def readonly_strategy(tier):
    with_sfp = rg.reactor_spec(max_rings=2, max_blocks=2, min_assems=2).map(lambda spec: dict(spec, sfp=True))
    return st.fixed_dictionaries(
        {
            "spec": st.one_of(with_sfp, with_sfp, rg.reactor_spec(max_rings=2, max_blocks=2)),
            "enabled": st.just(["param", "param", "unset", "ndens", "temp", "pitch", "height"]),
            # assemblies (index modulo the core's assemblies) discharged to the spent fuel pool BEFORE the reactor is frozen: the
            # pool then holds assemblies, blocks and components (pin lattices included) that must be frozen as well
            "discharge": st.one_of(st.lists(st.integers(0, 10**6), min_size=1, max_size=3), st.lists(st.integers(0, 10**6), min_size=1, max_size=2),
                                   st.just([])),
            "pre": st.lists(_op(), max_size=10),
            "variant": st.integers(0, 3),
        }
    )


def readonly_enum(tier):
    cases = []
    for s in RO_SPECS:
        for discharge in ([], [1]) if s["sfp"] else ([],):
            for v in (0, 1):
                cases.append({"spec": s, "enabled": ["param"], "pre": [], "variant": v, "discharge": discharge})
    return cases


def _different(cur, variant):
    """A value that differs from the current one (None for values that are set, a number otherwise)."""
    import numpy as np

    if variant % 2 == 1:
        return None if cur is not None else 0.5
    if isinstance(cur, (bool, np.bool_)):
        return not cur
    if isinstance(cur, (int, float, np.integer, np.floating)):
        return 2.5 if cur != cur else cur + 1
    if isinstance(cur, str):
        return cur + "x"
    if isinstance(cur, np.ndarray):
        return np.append(cur.ravel(), 1.0)
    if isinstance(cur, dict):
        return dict(cur, vpX=1.0)
    if isinstance(cur, (list, tuple)):
        return list(cur) + [1.0]
    return 1.25


def readonly_execute(case):
    Interp._asbuilt.clear()
    from armi.reactor import reactorParameters
    from armi.reactor.parameters import NoDefault
    from armi.reactor.parameters.exceptions import ParameterError

    from vp.model import observe as ob

    out = Out()
    cs, bp, r = rg.build(case["spec"])  # (settings: trackAssems)
    sfp = r.excore.get("sfp") if case["spec"].get("sfp") else None
    for k in case.get("discharge", []):
        assems = list(r.core)
        if sfp is None or sfp.spatialGrid is None or len(assems) < 2:
            break
        r.core.removeAssembly(assems[k % len(assems)], discharge=True)
    # every object reachable from the reactor: the reactor, the core, the ex-core structures and all assemblies / blocks /
    # components beneath either of them (the interpreter enumerates the tree in pre-order)
    it = Interp(r, out, case["enabled"], case, prefix="readonly")
    inpool = set()
    for i, o in enumerate(it.objs):
        if it.level[i] == "excore":
            inpool.update(range(i + 1, i + it.size[i]))
    out.label("excore-objects:%s" % ("0" if not inpool else "1-9" if len(inpool) < 10 else "10+"))
    if any(it.level[i] == "component" and type(it.objs[i].spatialLocator).__name__ == "MultiIndexLocation" for i in inpool):
        out.label("excore-pin-lattice-components")
    for op in case["pre"]:
        it.apply(op)
    reactorParameters.makeParametersReadOnly(r)
    before = snapshot(r)
    attempts = 0
    accepted = []
    for i, o in enumerate(it.objs):
        for pd in o.p.paramDefs:
            name = pd.name
            cur = getattr(o.p, pd.fieldName, NoDefault)
            if cur is NoDefault:
                cur = None
            for form in (0, 1):
                value = _different(cur, case["variant"] + form)
                attempts += 1
                try:
                    if form == 0:
                        o.p[name] = value
                    else:
                        setattr(o.p, name, value)
                    accepted.append((it.level[i] + (" in an ex-core structure" if i in inpool else ""), name, form, "accepted"))
                except RuntimeError:
                    pass
                except ParameterError:
                    out.label("refused-by-restricted-setter")
                except Exception as e:  # noqa: BLE001  the parameter's own setter ran: the read-only guard did not stop the assignment
                    accepted.append((it.level[i], name, form, "reached the setter (%s)" % type(e).__name__))
    out.evals = attempts
    out.nontrivial_count = attempts
    out.nontrivial = len(it.objs) > 3
    out.label("geom:" + case["spec"]["geom"], "objects:%d" % (10 * (len(it.objs) // 10)))
    for lvl, name, form, how in accepted[:3]:
        out.fail("readonly/assignment-not-refused/" + ("excore-contents/" if "ex-core" in lvl else "") + ("item" if form == 0 else "attribute"),
                 "read-only reactor: %s parameter %r: %s %s" % (lvl, name, "p[name] = v" if form == 0 else "setattr(p, name, v)", how))
    if accepted:
        return out  # the state may be unreadable now
    for x in ob.diff(before, snapshot(r), limit=3):
        out.fail("readonly/value-changed-by-refused-assignment", "after %d refused assignments: %s" % (attempts, x))
    # ---- public mutators whose first effect is a parameter assignment
    comps = [o for o, lv in zip(it.objs, it.level) if lv == "component"]
    blocks = [o for o, lv in zip(it.objs, it.level) if lv == "block"]
    mutators = []
    for c in comps[:: max(1, len(comps) // 6)]:
        mutators.append(("setTemperature", lambda c=c: c.setTemperature(c.temperatureInC + 25.0)))
        mutators.append(("changeNDensByFactor", lambda c=c: c.changeNDensByFactor(1.5)))
        mutators.append(("setNumberDensities", lambda c=c: c.setNumberDensities({"U235": 0.01})))
        mutators.append(("p.update", lambda c=c: c.p.update({"percentBu": 3.25})))
    for b in blocks[:: max(1, len(blocks) // 4)]:
        mutators.append(("setHeight", lambda b=b: b.setHeight(b.getHeight() * 1.5)))
        mutators.append(("p.update", lambda b=b: b.p.update({"power": 77.0, "flux": 1.0})))
    mutators.append(("core.p.update", lambda: r.core.p.update({"keff": 1.5})))
    mutators.append(("reactor.p.cycle", lambda: setattr(r.p, "cycle", r.p.cycle + 1)))
    for label, fn in mutators:
        try:
            fn()
            out.fail("readonly/mutator-accepted/" + label, "read-only reactor: %s succeeded" % label)
        except RuntimeError:
            pass
        out.evals += 1
    for x in ob.diff(before, snapshot(r), limit=3):
        out.fail("readonly/value-changed-by-refused-mutator", "after refused mutators: %s" % x)
    # observation only (design note): setNumberDensity edits the dictionary in place before the refused assignment
    withn = [c for c in comps if len(c.p.numberDensities) > 0]
    if withn:
        c = withn[0]
        nuc = sorted(c.p.numberDensities)[0]
        old = c.p.numberDensities[nuc]
        try:
            c.setNumberDensity(nuc, old * 2.0 + 1e-3)
            out.label("observation:setNumberDensity-accepted")
        except RuntimeError:
            out.label("observation:setNumberDensity-refused-" + ("but-dict-edited" if c.p.numberDensities[nuc] != old else "unchanged"))
    return out


# =============================================================================================

PARTS = [
    Part("retain", retain_execute, strategy=retain_strategy, budget={"quick": 300, "thorough": 15000}, procs={"quick": 6, "thorough": 16},
         rule="Hypothesis: blueprint-built reactor (hex third/full, Cartesian, pin lattices, SFP) + a tree of retain-state scopes nested <= 4 "
              "(objects at reactor/core/excore/assembly/block/component level chosen modulo the valid targets; nested scopes on the same "
              "object or on descendants; keep-sets of parameter definitions) with a swarm-selected mix of operations: typed assignments "
              "(float incl. NaN/inf, int, str, bool, xs letter, 1-D/2-D arrays with shape changes, list, dict, None, back to default, "
              "parameters without default), in-place edits, setNumberDensity, setTemperature, setDimension, changePitch, setHeight, cache "
              "fills/clears, deepcopy/pickle probes; operations may also hit objects of an enclosing scope.  Oracle after EVERY scope "
              "exit: inside the scope = entry snapshot with kept parameters at their last value, outside = unchanged by the exit, caches "
              "as on entry.  Non-trivial = a kept parameter assigned at nesting depth >= 2"),
    Part("copies", copies_execute, strategy=copies_strategy, budget={"quick": 120, "thorough": 6000}, procs={"quick": 4, "thorough": 16},
         rule="Hypothesis: reactor + state changes, then 1-4 copy steps (deepcopy or pickle protocol 2/4/5 of an object at any level of the "
              "original or of an earlier copy); oracle: equal values (serial aside), copying changes no live tree, deep-copy serials fresh and "
              "unique, then a mutation program on one tree leaves every other tree's snapshot unchanged.  Non-trivial = >= 2 copy steps"),
    Part("readonly", readonly_execute, strategy=readonly_strategy, budget={"quick": 40, "thorough": 1500}, procs={"quick": 2, "thorough": 16},
         rule="Hypothesis: reactor (two in three with a spent fuel pool that 1-3 assemblies are discharged to first, pin lattices "
              "included) + state changes, makeParametersReadOnly, then p[name] = v and setattr(p, name, v) on every parameter of every "
              "object reachable from the reactor (reactor, core, ex-core structures, assemblies/blocks/components in the core and in the "
              "pool; evals = attempts) and a list of public mutators; all must raise and the snapshot must not move"),
    Part("readonly_all", readonly_execute, enumerate=readonly_enum, exhaustive=True, procs={"quick": 2, "thorough": 6},
         rule="complete enumeration: every parameter definition of every object of three fixed reactors (hex third with SFP and pin "
              "lattice, hex corners-up full core, Cartesian quarter core; the two with a pool also with one assembly discharged to it "
              "before freezing), both assignment forms, two replacement values",
         bound=lambda t: "every (object, parameter definition, assignment form) of %d fixed reactors (+2 with an occupied pool) x 2 replacement values" % len(RO_SPECS)),
]
