"""C12 generator: plain-data specs of pin-type assemblies with a fluid dummy block on top.

``asm_spec(...)`` is a Hypothesis strategy; ``layout(spec)`` turns a spec into the list of block descriptions
(the reference model's view: component names, shapes, multiplicities, radial extents, materials, expected
target component); ``build(spec)`` constructs the armi ``Assembly`` either directly from component objects (as
armi's own ``buildTestAssemblyWithFakeMaterial`` does) or through a small blueprint.

Every spec is valid by construction: pins fit inside the duct, the derived coolant area is positive, at most
one solid component of each (shape, multiplicity) column overlaps per block, heights are positive, the top block
is a fluid-only ``dummy`` block tall enough for the change histories of the check.
"""
import math

from hypothesis import strategies as st

FUEL_MATS = ["UZr", "UO2", "MOX", "UZr"]
STEEL_MATS = ["HT9", "Inconel800", "HastelloyN", "InconelX750", "Zr"]
SHIELD_MATS = ["HT9", "B4C", "Graphite", "Inconel800"]
MULTS = [1, 7, 19, 37, 61, 127, 169, 271]
MAX_BLOCKS = 10  # below the dummy block
# exactly 0 degC, ends of validity windows of the materials used (Zr 293 K, InconelX750 21.1 C, B4C 25 C and 500 C)
SPECIAL_TEMPS = [0.0, 19.85, 21.1, 25.0, 500.0, 600.0]


def _r(x, n=4):
    return round(x, n)


def asm_spec(force_plenum=False, auto_targets_only=False):
    target = st.just(0) if auto_targets_only else st.sampled_from([0] * 10 + [1, 2, 3, 4, 5])
    return st.fixed_dictionaries(
        {
            "build": st.sampled_from(["direct"] * 8 + ["bp-hot", "bp-cold"]),
            "mult": st.sampled_from(MULTS),
            "cladOD": st.floats(0.4, 1.5).map(_r),
            "cladThick": st.floats(0.03, 0.12).map(_r),
            "fuelFrac": st.floats(0.7, 0.98).map(_r),
            "annular": st.sampled_from([0.0, 0.0, 0.0, 0.3]),
            "shieldFrac": st.sampled_from([None, None, 0.6, 0.99, 1.0]),
            "shieldStyle": st.sampled_from(["pin", "pin", "pin", "slug"]),
            "wire": st.booleans(),
            "wireFrac": st.floats(0.05, 0.2).map(_r),
            "slack": st.floats(1.005, 1.2).map(_r),
            "ductThick": st.floats(0.01, 0.05).map(_r),
            "gridOverlap": st.booleans(),
            "pin": st.sampled_from(["fuel", "fuel", "fuel", "control"]),
            # a second component with a target-eligible flag in some blocks; the pairs are the adjacent entries of armi's
            # documented preference order FUEL, CONTROL, POISON, SHIELD, SLUG:
            # 0 fuel block + control rods, 1 control block + poison rods, 2 shield block + poison rods, 3 shield block + slugs
            "extra": st.sampled_from([None, None, None, 0, 1, 2, 3]),
            "mat": st.fixed_dictionaries(
                {
                    "fuel": st.sampled_from(FUEL_MATS),
                    "clad": st.sampled_from(STEEL_MATS),
                    "wire": st.sampled_from(STEEL_MATS),
                    "duct": st.sampled_from(STEEL_MATS),
                    "shield": st.sampled_from(SHIELD_MATS),
                    "grid": st.sampled_from(STEEL_MATS),
                }
            ),
            "single": st.sampled_from([None, None, None, "HT9", "Inconel800"]),
            "nGrid": st.integers(0, 1),
            "nShield": st.integers(0, 2),
            "nFuel": st.integers(1, 4),
            "nPlenum": st.integers(1, 2) if force_plenum else st.integers(0, 2),
            "aclp": st.booleans(),
            "nDuct": st.integers(0, 1),
            # handling-socket plate: a HoledHexagon (subclass of Hexagon) directly above a block with a Hexagon duct
            "nSocket": st.integers(0, 1),
            # short blocks (1-3 cm) and tall columns (60-150 cm) are over-weighted
            "heights": st.lists(st.one_of(st.floats(1.0, 150.0), st.floats(1.0, 3.0), st.floats(60.0, 150.0)).map(_r),
                                min_size=1, max_size=MAX_BLOCKS),
            "temps": st.lists(st.one_of(st.sampled_from([0.0, 0.0] + SPECIAL_TEMPS), st.floats(0.0, 600.0).map(lambda x: _r(x, 1))),
                              min_size=1, max_size=MAX_BLOCKS),
            "tempMode": st.sampled_from(["uniform", "uniform", "perComponent"]),
            "targets": st.lists(target, min_size=1, max_size=MAX_BLOCKS),
            "dummyFrac": st.one_of(st.floats(1.0, 2.5), st.floats(1.0, 2.5), st.floats(1.0, 2.5), st.floats(0.0, 0.3)).map(_r),
        }
    )


# ---------------------------------------------------------------------------------------------
# spec -> block layout (plain data; shared by the builder and the reference model)


def _dims(spec):
    cod = spec["cladOD"]
    cid = _r(cod * (1.0 - 2.0 * spec["cladThick"]), 5)
    fod = _r(cid * spec["fuelFrac"], 5)
    fid = _r(fod * spec["annular"], 5)
    sod = fod if spec["shieldFrac"] is None else _r(cid * spec["shieldFrac"], 5)
    wod = _r(cod * spec["wireFrac"], 5) if spec["wire"] else 0.0
    p = cod + wod
    rings = {1: 1, 7: 2, 19: 3, 37: 4, 61: 5, 127: 7, 169: 8, 271: 10}[spec["mult"]]
    # armi's blueprint validation (HexBlock.verifyBlockDims): the hex-packed, wire-wrapped bundle must fit in the duct
    need = math.sqrt(3.0) * (rings - 1) * p + cod + 2.0 * wod
    if spec.get("extra") is not None:
        need += 2.0 * cod  # room for the extra rods
    ip = _r(need * spec["slack"] + 0.01, 4)
    op = _r(ip * (1.0 + 2.0 * spec["ductThick"]), 4)
    pitch = _r(op * 1.02, 4)
    return dict(cod=cod, cid=cid, fod=fod, fid=fid, sod=sod, wod=wod, hd=_r(cod + wod, 5), ip=ip, op=op, pitch=pitch)


EXTRA = {0: ("fuel", "control", "B4C"), 1: ("control", "poison", "B4C"), 2: ("shield", "poison", "B4C"), 3: ("shield", "slug", "HT9")}
EXTRA_MULT = 3.0  # never a pin multiplicity: the extra rods only link to the extra rods of the block below
# the documented order of ExpansionData.determineTargetComponent
PREFERENCE = ["fuel", "control", "poison", "shield", "slug"]


def block_kinds(spec):
    pin = "control" if spec.get("extra") == 1 else spec["pin"]
    kinds = ["grid plate"] * spec["nGrid"] + ["shield"] * spec["nShield"] + [pin] * spec["nFuel"]
    plen = ["plenum"] * spec["nPlenum"]
    if spec["aclp"] and len(plen) == 2:
        plen[1] = "aclp plenum"
    kinds += plen + ["duct"] * spec["nDuct"] + ["handling socket"] * spec.get("nSocket", 0)
    return kinds


def layout(spec):
    """List of block dicts bottom-up, the dummy block last."""
    d = _dims(spec)
    m = dict(spec["mat"])
    if spec["single"]:
        m = {k: spec["single"] for k in m}
    mult = float(spec["mult"])
    kinds = block_kinds(spec)
    blocks = []

    def circ(name, mat, idv, odv, solid=True):
        return {"name": name, "shape": "Circle", "material": mat, "mult": mult, "inner": idv, "outer": odv, "solid": solid,
                "dims": {"id": idv, "od": odv, "mult": mult}}

    def hexa(name, mat, ip, op, solid=True):
        return {"name": name, "shape": "Hexagon", "material": mat, "mult": 1.0, "inner": ip, "outer": op, "solid": solid,
                "dims": {"ip": ip, "op": op, "mult": 1.0}}

    def wire():
        return {"name": "wire", "shape": "Helix", "material": m["wire"], "mult": mult, "inner": d["hd"] - d["wod"],
                "outer": d["hd"] + d["wod"], "solid": True,
                "dims": {"axialPitch": 30.0, "helixDiameter": d["hd"], "id": 0.0, "od": d["wod"], "mult": mult}}

    def coolant():
        return {"name": "coolant", "shape": "DerivedShape", "material": "Sodium", "mult": 1.0, "inner": 0.0, "outer": 0.0,
                "solid": False, "dims": {}}

    for i, kind in enumerate(kinds):
        comps = []
        auto = None
        if kind == "grid plate":
            if spec["gridOverlap"]:
                comps.append(hexa("grid", m["grid"], _r(d["ip"] * 0.9, 4), d["op"]))
            else:
                comps.append(hexa("grid", m["grid"], _r(d["ip"] * 0.5, 4), _r(d["ip"] * 0.95, 4)))
            comps.append(coolant())
            comps.append(hexa("intercoolant", "Sodium", d["op"], d["pitch"], solid=False))
            auto = "grid"
        elif kind == "shield" and spec["shieldStyle"] == "slug":
            # a few big slugs instead of pins: different multiplicity, so nothing of the pin bundle links to them
            smult = 7.0 if spec["mult"] != 7 else 1.0
            sod = _r(0.9 * d["ip"] / (3.0 if smult == 7.0 else 1.0) * 0.85, 4)
            slug = circ("shield", m["shield"], 0.0, sod)
            slug["mult"] = smult
            slug["dims"]["mult"] = smult
            comps.append(slug)
            comps.append(coolant())
            comps.append(hexa("duct", m["duct"], d["ip"], d["op"]))
            comps.append(hexa("intercoolant", "Sodium", d["op"], d["pitch"], solid=False))
            auto = "shield"
        elif kind == "handling socket":
            # identical-type rule: the plate's class derives from the duct's class below, overlapping footprint, NOT linked
            comps.append({"name": "handling socket", "shape": "HoledHexagon", "material": m["duct"], "mult": 1.0, "inner": 0.0,
                          "outer": d["op"], "solid": True,
                          "dims": {"op": d["op"], "holeOD": _r(d["op"] / 5.0, 4), "nHoles": 7, "mult": 1.0}})
            comps.append(coolant())
            comps.append(hexa("intercoolant", "Sodium", d["op"], d["pitch"], solid=False))
            auto = "handling socket"
        elif kind == "duct":
            comps.append(coolant())
            comps.append(hexa("duct", m["duct"], d["ip"], d["op"]))
            comps.append(hexa("intercoolant", "Sodium", d["op"], d["pitch"], solid=False))
            auto = "duct"
        else:
            if kind == "shield":
                comps.append(circ("shield", m["shield"], 0.0, d["sod"]))
                if d["sod"] < d["cid"]:  # shieldFrac 1.0: the slug touches the clad, no bond
                    comps.append(circ("bond", "Sodium", d["sod"], d["cid"], solid=False))
                auto = "shield"
            elif kind == "fuel":
                comps.append(circ("fuel", m["fuel"], d["fid"], d["fod"]))
                comps.append(circ("bond", "Sodium", d["fod"], d["cid"], solid=False))
                auto = "fuel"
            elif kind == "control":
                comps.append(circ("control", "B4C" if not spec["single"] else spec["single"], d["fid"], d["fod"]))
                comps.append(circ("bond", "Sodium", d["fod"], d["cid"], solid=False))
                auto = "control"
            else:  # plenum / aclp plenum
                comps.append(circ("gap", "Void", 0.0, d["cid"], solid=False))
                auto = "clad"
            comps.append(circ("clad", m["clad"], d["cid"], d["cod"]))
            if spec["wire"]:
                comps.append(wire())
            ex = EXTRA.get(spec.get("extra"))
            if ex and ex[0] == kind:
                rod = circ(ex[1], spec["single"] or ex[2], 0.0, d["cod"])
                rod["mult"] = EXTRA_MULT
                rod["dims"]["mult"] = EXTRA_MULT
                comps.append(rod)
                # target by flag preference (also what _isFuelLocked gives for a fuel block)
                auto = min(auto, ex[1], key=PREFERENCE.index)
            comps.append(coolant())
            comps.append(hexa("duct", m["duct"], d["ip"], d["op"]))
            comps.append(hexa("intercoolant", "Sodium", d["op"], d["pitch"], solid=False))
        solids = [c["name"] for c in comps if c["solid"]]
        t = spec["targets"][i % len(spec["targets"])]
        explicit = solids[(t - 1) % len(solids)] if t else None
        T = spec["temps"][i % len(spec["temps"])]
        for c in comps:
            if spec["tempMode"] == "uniform" or not c["solid"]:
                c["Thot"] = T
            else:
                c["Thot"] = _r({"fuel": T + 130.0, "control": T + 60.0, "shield": T + 10.0, "clad": T + 20.0, "wire": T,
                                "duct": max(0.0, T - 15.0), "grid": T, "handling socket": max(0.0, T - 15.0)}.get(c["name"], T), 1)
        blocks.append(
            {
                "kind": kind,
                "name": kind,
                "height": spec["heights"][i % len(spec["heights"])],
                "comps": comps,
                "explicit": explicit,
                "target": explicit or auto,
            }
        )
    below = sum(b["height"] for b in blocks)
    T = spec["temps"][len(kinds) % len(spec["temps"])]
    blocks.append(
        {
            "kind": "dummy",
            "name": "dummy",
            "height": _r(below * spec["dummyFrac"] + 5.0, 4),
            "comps": [dict(hexa("dummy coolant", "Sodium", 0.0, d["pitch"], solid=False), Thot=T)],
            "explicit": None,
            "target": None,
        }
    )
    return blocks


def model_links(blocks, rule="stock"):
    """Reference linkage (``rule`` = the linkage rule in force: armi's stock rule or one installed through the
    documented override hook AssemblyAxialLinkage.areAxiallyLinked: "name", "never", "ignore-mult"): {(i, name): name of the linked solid component in block i-1 or None}.

    Documented criteria (areAxiallyLinked): both solid, identical shape type, identical multiplicity, and the larger
    of the inner bounding diameters below the smaller of the outer bounding diameters.  ``None`` when no candidate;
    the string ``"<multiple>"`` when more than one (armi documents a RuntimeError for that input).
    """
    links = {}
    for i, b in enumerate(blocks):
        for c in b["comps"]:
            if not c["solid"]:
                continue
            found = []
            if i > 0:
                for o in blocks[i - 1]["comps"]:
                    if not o["solid"] or rule == "never":
                        continue
                    if rule == "name":
                        if o["name"] == c["name"]:
                            found.append(o["name"])
                        continue
                    if o["shape"] != c["shape"] or (rule != "ignore-mult" and o["mult"] != c["mult"]):
                        continue
                    if max(c["inner"], o["inner"]) < min(c["outer"], o["outer"]):
                        found.append(o["name"])
            links[(i, c["name"])] = None if not found else (found[0] if len(found) == 1 else "<multiple>")
    return links


def ambiguous(blocks, rule):
    """True when some solid component would have more than one link below OR above under ``rule`` (armi searches both
    directions and documents a RuntimeError 'indicative of an error in the blueprints' for that)."""
    if any(v == "<multiple>" for v in model_links(blocks, rule).values()):
        return True
    return any(v == "<multiple>" for v in model_links(list(reversed(blocks)), rule).values())


# ---------------------------------------------------------------------------------------------
# construction


def _mk_component(c, tin=25.0):
    from armi.reactor.components import DerivedShape
    from armi.reactor.components.basicShapes import Circle, Hexagon
    from armi.reactor.components.complexShapes import Helix, HoledHexagon

    cls = {"Circle": Circle, "Hexagon": Hexagon, "Helix": Helix, "DerivedShape": DerivedShape, "HoledHexagon": HoledHexagon}[c["shape"]]
    return cls(c["name"], c["material"], Tinput=tin, Thot=c["Thot"], **c["dims"])


def build_direct(blocks, atype="testAssemblyType"):
    from armi.reactor import grids
    from armi.reactor.assemblies import HexAssembly
    from armi.reactor.blocks import HexBlock

    a = HexAssembly(atype)
    a.spatialGrid = grids.AxialGrid.fromNCells(numCells=1)
    a.spatialGrid.armiObject = a
    for bd in blocks:
        b = HexBlock(bd["kind"], height=bd["height"])
        byname = {}
        for c in bd["comps"]:
            comp = _mk_component(c)
            byname[c["name"]] = comp
            b.add(comp)
        b.setType(bd["kind"])
        b.getVolumeFractions()
        if bd["explicit"]:
            b.setAxialExpTargetComp(byname[bd["explicit"]])
        a.add(b)
    a.calculateZCoords()
    a.reestablishBlockOrder()
    return a


def _nuclide_flags(blocks):
    """Default nuclide flags plus every element the chosen materials bring (unburned, with cross sections)."""
    from armi import materials
    from armi.reactor.blueprints import isotopicOptions

    flags = dict(isotopicOptions.getDefaultNuclideFlags())
    for name in sorted({c["material"] for b in blocks for c in b["comps"]}):
        mat = materials.resolveMaterialClassByName(name)()
        for nuc in sorted(mat.massFrac):
            flags.setdefault(nuc, {"burn": False, "xs": True, "expandTo": None})
    L = ["nuclide flags:"]
    for nuc in sorted(flags):
        f = flags[nuc]
        L.append("    %s: {burn: %s, xs: %s}" % (nuc, str(bool(f["burn"])).lower(), str(bool(f["xs"])).lower()))
    return L


def render_blueprint(blocks):
    L = _nuclide_flags(blocks) + ["blocks:"]
    names = []
    for i, bd in enumerate(blocks):
        # armi derives the block flags from the name; the digits are ignored by the flag parser
        name = bd["kind"] if bd["kind"] == "dummy" else "%s %d" % (bd["kind"], i + 1)
        names.append(name)
        L.append("    %s: &b%d" % (name, i))
        if bd["kind"] == "dummy":
            L.append("        flags: dummy")
        if bd["explicit"]:
            L.append("        axial expansion target component: %s" % bd["explicit"])
        for c in bd["comps"]:
            L.append("        %s:" % c["name"])
            L.append("            shape: %s" % c["shape"])
            L.append("            material: %s" % c["material"])
            L.append("            Tinput: 25.0")
            L.append("            Thot: %r" % c["Thot"])
            for k, v in c["dims"].items():
                L.append("            %s: %r" % (k, v))
    nb = len(blocks)
    L.append("assemblies:")
    L.append("    pin assembly:")
    L.append("        specifier: PA")
    L.append("        blocks: [%s]" % ", ".join("*b%d" % i for i in range(nb)))
    L.append("        height: [%s]" % ", ".join(repr(b["height"]) for b in blocks))
    L.append("        axial mesh points: [%s]" % ", ".join("1" for _ in blocks))
    L.append("        xs types: [%s]" % ", ".join("A" for _ in blocks))
    if any(c["material"] == "UZr" for b in blocks for c in b["comps"]):
        def mods(val):
            return ", ".join(repr(val) if any(c["material"] == "UZr" for c in b["comps"]) else "''" for b in blocks)
        L.append("        material modifications:")
        L.append("            U235_wt_frac: [%s]" % mods(0.12))
        L.append("            ZR_wt_frac: [%s]" % mods(0.1))
    return "\n".join(L) + "\n"


_SETTINGS = {}


def build_blueprint(blocks, hot):
    from armi.reactor import blueprints

    from vp import env

    cs = _SETTINGS.get(bool(hot))
    if cs is None:  # read-only use; one Settings object per process and flavour
        cs = _SETTINGS[bool(hot)] = env.quiet_settings({"inputHeightsConsideredHot": bool(hot), "detailedAxialExpansion": True})
    bp = blueprints.Blueprints.load(render_blueprint(blocks))
    bp._prepConstruction(cs)
    return bp.assemblies["pin assembly"]


def build(spec, blocks=None):
    blocks = blocks if blocks is not None else layout(spec)
    if spec["build"] == "direct":
        return build_direct(blocks)
    return build_blueprint(blocks, hot=(spec["build"] == "bp-hot"))
