"""Shared generator: plain-data reactor specs -> blueprint YAML text -> armi Reactor.

``reactor_spec(...)`` is a Hypothesis strategy of JSON specs; ``render(spec)`` gives the blueprint text and
``build(spec)`` the constructed ``(cs, bp, reactor)``.  Every spec is valid by construction (pins fit in the
duct, derived coolant area positive, locations inside the declared symmetry domain).
"""
import math

from hypothesis import strategies as st

from vp.model import hexmodel as hm

HEX_MULTS = [1, 7, 19, 37]
BLOCK_KINDS = ["grid plate", "fuel", "plenum", "reflector", "control", "duct"]
SPECIFIERS = ["IC", "OC", "RR", "SH", "PC", "LA"]


# ---------------------------------------------------------------------------------------------
# locations


def hex_cells(rings, symmetry):
    cells = []
    for ring in range(1, rings + 1):
        for (i, j) in hm.ring_cells(ring):
            if symmetry.startswith("third"):
                if not hm.in_first_third(i, j, include_top_edge=False):
                    continue
            cells.append((i, j))
    return cells


def cart_cells(n, symmetry, through_centre=True):
    cells = []
    if symmetry.startswith("quarter"):
        rng = range(0, n)
        return [(i, j) for i in rng for j in rng]
    lo = -(n - 1)
    return [(i, j) for i in range(lo, n) for j in range(lo, n)]


# ---------------------------------------------------------------------------------------------
# strategy


@st.composite
def reactor_spec(draw, geoms=("hex", "hex_corners_up", "cartesian"), max_rings=3, max_blocks=4, min_assems=1,
                 symmetries=None, allow_pin_grid=True, allow_holes=True, dummy_top=False):
    geom = draw(st.sampled_from(list(geoms)))
    if geom.startswith("hex"):
        symmetry = draw(st.sampled_from(symmetries or ["third periodic", "full"]))
        rings = draw(st.integers(1 if min_assems <= 1 else 2, max_rings))
        cells = hex_cells(rings, symmetry)
    else:
        symmetry = draw(st.sampled_from(symmetries or ["full", "quarter reflective through center"]))
        rings = draw(st.integers(1 if min_assems <= 1 else 2, max_rings))
        cells = cart_cells(rings, symmetry)
    nblocks = draw(st.integers(1, max_blocks))
    heights = [draw(st.floats(5.0, 60.0).map(lambda x: round(x, 3))) for _ in range(nblocks)]
    ndesigns = draw(st.integers(1, 3))
    pitch = draw(st.floats(8.0, 20.0).map(lambda x: round(x, 3)))
    designs = []
    for d in range(ndesigns):
        kinds = []
        for b in range(nblocks):
            if dummy_top and b == nblocks - 1 and nblocks > 1:
                kinds.append("duct")
            else:
                kinds.append(draw(st.sampled_from(BLOCK_KINDS[:-1] if nblocks > 1 else ["fuel", "reflector", "control"])))
        designs.append(
            {
                "specifier": SPECIFIERS[d],
                "name": ["inner", "outer", "radial"][d] + " assem",
                "kinds": kinds,
                "mult": draw(st.sampled_from(HEX_MULTS)),
                "fill": draw(st.floats(0.25, 0.7).map(lambda x: round(x, 3))),
                "enrich": [draw(st.floats(0.02, 0.3).map(lambda x: round(x, 4))) for _ in range(nblocks)],
                "zr": draw(st.floats(0.03, 0.12).map(lambda x: round(x, 4))),
                "xs": [draw(st.sampled_from("ABCD")) for _ in range(nblocks)],
                "thot": draw(st.floats(300.0, 650.0).map(lambda x: round(x, 1))),
                "fuelMat": draw(st.sampled_from(["UZr", "UZr", "UO2", "UraniumOxide"])),
                "td": draw(st.sampled_from([1.0, 0.95, 0.9, 0.85])),
                "pinGrid": bool(allow_pin_grid and geom.startswith("hex") and draw(st.integers(0, 3)) == 0),
            }
        )
    chosen = []
    for idx, c in enumerate(cells):
        if allow_holes and len(cells) > 2 and idx != 0 and draw(st.integers(0, 5)) == 0:
            continue  # hole
        chosen.append([c[0], c[1], draw(st.integers(0, ndesigns - 1))])
    while len(chosen) < min(min_assems, len(cells)):
        for c in cells:
            if not any(x[0] == c[0] and x[1] == c[1] for x in chosen):
                chosen.append([c[0], c[1], 0])
                break
    return {
        "geom": geom,
        "symmetry": symmetry,
        "rings": rings,
        "pitch": pitch,
        "heights": heights,
        "designs": designs,
        "cells": chosen,
        "sfp": draw(st.booleans()),
    }


@st.composite
def rzt_spec(draw, max_r=3, max_theta=3, max_blocks=3):
    """theta-R-Z core: one assembly design per (theta, r) cell, RadialSegment components (as in armi's godiva input)."""
    nth = draw(st.integers(1, max_theta))
    nr = draw(st.integers(1, max_r))
    sector = draw(st.sampled_from([("eighth periodic", math.pi / 4), ("quarter periodic", math.pi / 2), ("full", 2 * math.pi)]))
    theta = [round(sector[1] * k / nth, 12) for k in range(nth + 1)]
    theta[-1] = sector[1]
    r = [0.0]
    for _ in range(nr):
        r.append(round(r[-1] + draw(st.floats(1.0, 20.0)), 3))
    nblocks = draw(st.integers(1, max_blocks))
    heights = [draw(st.floats(2.0, 30.0).map(lambda x: round(x, 3))) for _ in range(nblocks)]
    cells = []
    for ti in range(nth):
        for ri in range(nr):
            if len(cells) and draw(st.integers(0, 6)) == 0:
                continue
            cells.append([ti, ri, draw(st.floats(0.3, 1.0).map(lambda x: round(x, 4))), draw(st.sampled_from("ABC"))])
    return {"geom": "thetarz", "symmetry": sector[0], "theta": theta, "r": r, "heights": heights, "cells": cells, "sfp": False,
            "designs": [], "pitch": 0.0, "rings": nr}


def render_rzt(spec):
    L = ["blocks: {}", "assemblies:"]
    nb = len(spec["heights"])
    L.append("    heights: &heights [%s]" % ", ".join(repr(h) for h in spec["heights"]))
    L.append("    axial mesh points: &mesh [%s]" % ", ".join("1" for _ in range(nb)))
    for ti, ri, frac, xs in spec["cells"]:
        name = "assembly%d_%d" % (ti, ri)
        L.append("    %s:" % name)
        L.append("        specifier: %s" % name)
        L.append("        blocks:")
        for bi, h in enumerate(spec["heights"]):
            L.append("            - name: block%d_%d_%d" % (ti, ri, bi))
            for cname, mat, mult in (("fuel", "UZr", frac), ("compliment", "Sodium", round(1.0 - frac, 6))):
                if mult <= 0:
                    continue
                L.append("              %s:" % cname)
                L.append("                  shape: RadialSegment")
                L.append("                  material: %s" % mat)
                L.append("                  Tinput: 450.0")
                L.append("                  Thot: 450.0")
                L.append("                  inner_theta: %r" % spec["theta"][ti])
                L.append("                  outer_theta: %r" % spec["theta"][ti + 1])
                L.append("                  inner_radius: %r" % spec["r"][ri])
                L.append("                  outer_radius: %r" % spec["r"][ri + 1])
                L.append("                  height: %r" % h)
                L.append("                  mult: %r" % mult)
        L.append("        height: *heights")
        L.append("        axial mesh points: *mesh")
        L.append("        xs types: [%s]" % ", ".join(xs for _ in range(nb)))
    L += ["systems:", "    core:", "        grid name: core", "        origin: {x: 0.0, y: 0.0, z: 0.0}", "grids:", "    core:",
          "        geom: thetarz", "        symmetry: %s" % spec["symmetry"], "        grid bounds:"]
    L.append("            r: [%s]" % ", ".join(repr(x) for x in spec["r"]))
    L.append("            theta: [%s]" % ", ".join(repr(x) for x in spec["theta"]))
    z = [0.0]
    for h in spec["heights"]:
        z.append(round(z[-1] + h, 6))
    L.append("            z: [%s]" % ", ".join(repr(x) for x in z))
    L.append("        grid contents:")
    for ti, ri, _f, _x in spec["cells"]:
        L.append("            [%d,%d]: assembly%d_%d" % (ti, ri, ti, ri))
    return "\n".join(L) + "\n"


# ---------------------------------------------------------------------------------------------
# rendering


def _hex_area(p):
    return math.sqrt(3.0) / 2.0 * p * p


def _comp(name, indent, **kw):
    lines = ["%s%s:" % (" " * indent, name)]
    for k, v in kw.items():
        if v is None:
            continue
        lines.append("%s%s: %s" % (" " * (indent + 4), k, v))
    return lines


def _pin_dims(spec, design):
    """Outer pin diameter so that mult pins fill ``fill`` of the inner duct area."""
    P = spec["pitch"]
    ip = round(P * 0.93, 4)
    if spec["geom"].startswith("hex"):
        inner_area = _hex_area(ip)
    else:
        inner_area = ip * ip
    mult = design["mult"]
    od = math.sqrt(design["fill"] * inner_area / mult * 4.0 / math.pi)
    return round(od, 4), ip


def render_block(spec, design, bi, blockname):
    kind = design["kinds"][bi]
    P = spec["pitch"]
    od, ip = _pin_dims(spec, design)
    op = round(P * 0.97, 4)
    mult = float(design["mult"])
    thot = design["thot"]
    tin = design.get("tin", 25.0)  # input temperature of the solid components (optional key; 0.0 is a legitimate value)
    hexg = spec["geom"].startswith("hex")
    L = ["    %s: &block_%s" % (blockname, blockname.replace(" ", "_"))]
    pin_grid = design["pinGrid"] and kind in ("fuel", "reflector", "control") and hexg
    if pin_grid:
        L.append("        grid name: pins%d" % design["mult"])
    lat = "[1]" if pin_grid else None
    m = None if pin_grid else mult

    def circ(name, material, idv, odv, tin, th, mlt=m, extra=None):
        kw = dict(shape="Circle", material=material, Tinput=tin, Thot=th, id=idv, od=odv)
        if mlt is not None:
            kw["mult"] = mlt
        if lat is not None:
            kw["latticeIDs"] = lat
        if extra:
            kw.update(extra)
        return _comp(name, 8, **kw)

    if kind == "fuel":
        L += circ("fuel", design.get("fuelMat", "UZr"), 0.0, round(od * 0.8, 4), tin, thot)
        L += circ("bond", "Sodium", "fuel.od", "clad.id", 450.0, 450.0, mlt=None if pin_grid else "fuel.mult")
        L += circ("clad", "HT9", round(od * 0.9, 4), od, tin, min(thot, 470.0), mlt=None if pin_grid else "fuel.mult")
    elif kind == "plenum":
        L += circ("gap", "Void", 0.0, "clad.id", 450.0, 450.0, mlt="clad.mult")
        L += circ("clad", "HT9", round(od * 0.9, 4), od, tin, 470.0, mlt=mult)
        lat = None
    elif kind == "control":
        L += circ("control", "B4C", 0.0, round(od * 0.85, 4), tin, thot)
        L += circ("gap", "Void", "control.od", "clad.id", 450.0, 450.0, mlt=None if pin_grid else "control.mult")
        L += circ("clad", "HT9", round(od * 0.92, 4), od, tin, 450.0, mlt=None if pin_grid else "control.mult")
    elif kind in ("reflector", "grid plate"):
        name = "reflector" if kind == "reflector" else "grid"
        if kind == "grid plate":
            L += _comp("grid", 8, shape="Circle", material="HT9", Tinput=tin, Thot=450.0, id=0.0, od=od, mult=mult)
        else:
            L += circ(name, "HT9", 0.0, od, tin, 450.0)
    # wire for pinned blocks without a grid
    if kind in ("fuel", "control") and not pin_grid:
        owner = "fuel" if kind == "fuel" else "control"
        L += _comp("wire", 8, shape="Helix", material="HT9", Tinput=tin, Thot=450.0, axialPitch=30.0,
                   helixDiameter=round(od * 1.05, 4), id=0.0, od=round(od * 0.05, 4), mult="%s.mult" % owner)
    L += _comp("coolant", 8, shape="DerivedShape", material="Sodium", Tinput=450.0, Thot=450.0)
    if hexg:
        L += _comp("duct", 8, shape="Hexagon", material="HT9", Tinput=tin, Thot=450.0, ip=ip, mult=1.0, op=op)
        L += _comp("intercoolant", 8, shape="Hexagon", material="Sodium", Tinput=450.0, Thot=450.0, ip="duct.op", mult=1.0, op=P)
    else:
        L += _comp("duct", 8, shape="Rectangle", material="HT9", Tinput=tin, Thot=450.0, lengthInner=ip, lengthOuter=op,
                   widthInner=ip, widthOuter=op, mult=1.0)
        L += _comp("intercoolant", 8, shape="Rectangle", material="Sodium", Tinput=450.0, Thot=450.0, lengthInner=op,
                   lengthOuter=P, widthInner=op, widthOuter=P, mult=1.0)
    return L


def _pin_map(mult):
    """grid contents for a full hex pin lattice with ``mult`` pins, all id '1'."""
    rings = {1: 1, 7: 2, 19: 3, 37: 4}[mult]
    lines = []
    for ring in range(1, rings + 1):
        for (i, j) in hm.ring_cells(ring):
            lines.append("            [%d,%d]: '1'" % (i, j))
    return lines


def render(spec):
    if spec["geom"] == "thetarz":
        return render_rzt(spec)
    L = []
    if any(d.get("fuelMat", "UZr") != "UZr" for d in spec["designs"]):
        # oxide fuels need oxygen, which armi's default nuclide flags lack: spell the defaults out and add O
        L.append("nuclide flags:")
        burn = ["U234", "U235", "U236", "U238", "NP237", "NP238", "PU236", "PU238", "PU239", "PU240", "PU241", "PU242",
                "AM241", "AM242", "AM243", "CM242", "CM243", "CM244", "CM245", "CM246", "CM247",
                "LFP35", "LFP38", "LFP39", "LFP40", "LFP41", "DUMP1", "DUMP2"]
        inert = ["B10", "B11", "ZR", "C", "SI", "V", "CR", "MN", "FE", "NI", "MO", "W", "NA", "HE", "O"]
        for n in burn:
            L.append("    %s: {burn: true, xs: true, expandTo: []}" % n)
        for n in inert:
            L.append("    %s: {burn: false, xs: true, expandTo: []}" % n)
    L.append("blocks:")
    blocknames = {}
    for di, d in enumerate(spec["designs"]):
        for bi, kind in enumerate(d["kinds"]):
            name = "%s %s%d" % (kind, d["specifier"].lower(), bi)
            blocknames[(di, bi)] = name
            L += render_block(spec, d, bi, name)
    L.append("assemblies:")
    nb = len(spec["heights"])
    L.append("    heights: &heights [%s]" % ", ".join(repr(h) for h in spec["heights"]))
    L.append("    axial mesh points: &mesh [%s]" % ", ".join("1" for _ in range(nb)))
    for di, d in enumerate(spec["designs"]):
        L.append("    %s:" % d["name"])
        L.append("        specifier: %s" % d["specifier"])
        L.append("        blocks: [%s]" % ", ".join("*block_%s" % blocknames[(di, bi)].replace(" ", "_") for bi in range(nb)))
        L.append("        height: *heights")
        L.append("        axial mesh points: *mesh")
        if any(k == "fuel" for k in d["kinds"]):
            L.append("        material modifications:")
            L.append("            U235_wt_frac: [%s]" % ", ".join(repr(e) if k == "fuel" else "''" for e, k in zip(d["enrich"], d["kinds"])))
            if d.get("fuelMat", "UZr") == "UZr":
                L.append("            ZR_wt_frac: [%s]" % ", ".join(repr(d["zr"]) if k == "fuel" else "''" for k in d["kinds"]))
            elif d.get("td", 1.0) != 1.0:
                L.append("            TD_frac: [%s]" % ", ".join(repr(d["td"]) if k == "fuel" else "''" for k in d["kinds"]))
        L.append("        xs types: [%s]" % ", ".join(d["xs"]))
    L.append("systems:")
    L.append("    core:")
    L.append("        grid name: core")
    co = spec.get("coreOrigin") or [0.0, 0.0, 0.0]
    L.append("        origin: {x: %r, y: %r, z: %r}" % tuple(co))
    if spec.get("sfp"):
        so = spec.get("sfpOrigin") or [5000.0, 5000.0, 6000.0]
        L.append("    Spent Fuel Pool:")
        L.append("        type: sfp")
        L.append("        grid name: sfp")
        L.append("        origin: {x: %r, y: %r, z: %r}" % tuple(so))
    L.append("grids:")
    L.append("    core:")
    L.append("        geom: %s" % spec["geom"])
    L.append("        symmetry: %s" % spec["symmetry"])
    if spec["geom"] == "cartesian":
        L.append("        lattice pitch: {x: %r, y: %r}" % (spec["pitch"], spec["pitch"]))
    L.append("        grid contents:")
    for i, j, di in spec["cells"]:
        L.append("            [%d,%d]: %s" % (i, j, spec["designs"][di]["specifier"]))
    if spec.get("sfp"):
        L.append("    sfp:")
        L.append("        geom: cartesian")
        L.append("        symmetry: full")
        L.append("        lattice pitch: {x: 50.0, y: 50.0}")
    for mult in sorted({d["mult"] for d in spec["designs"] if d["pinGrid"]}):
        L.append("    pins%d:" % mult)
        L.append("        geom: hex_corners_up" if spec["geom"] == "hex" else "        geom: hex")
        L.append("        symmetry: full")
        L.append("        grid contents:")
        L += _pin_map(mult)
    return "\n".join(L) + "\n"


# ---------------------------------------------------------------------------------------------
# construction


def build(spec, settings=None, text=None):
    """Return (cs, bp, reactor) for a spec."""
    from armi.reactor import blueprints, reactors

    from vp import env

    base = {"inputHeightsConsideredHot": True, "trackAssems": True}
    if settings:
        base.update(settings)
    cs = env.quiet_settings(base)
    bp = blueprints.Blueprints.load(text if text is not None else render(spec))
    r = reactors.factory(cs, bp)
    return cs, bp, r
