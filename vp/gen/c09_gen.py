"""Hypothesis strategies for C09 (cases are plain JSON data)."""
from hypothesis import strategies as st

from vp.model import c09_formats as fm

PRINTABLE = "".join(chr(c) for c in range(0x20, 0x7F))

f32 = st.floats(width=32, allow_nan=False, allow_infinity=False)
f64 = st.floats(allow_nan=False, allow_infinity=False)
# doubles whose decimal exponent has two digits (what the ASCII layout has room for)
f64_2digit = st.one_of(st.just(0.0), st.floats(1e-99, 9.9e99), st.floats(-9.9e99, -1e-99))
# mostly up to nine digits (what the ASCII layout has room for), one draw in forty needs ten digits
_special_i32 = st.sampled_from([2**31 - 1, -(2**31), 10**9, -(10**9), 1234567890, -2000000000])
i32 = st.tuples(st.integers(0, 39), st.integers(-999999999, 999999999), st.integers(-50, 50), _special_i32).map(
    lambda t: t[3] if t[0] == 39 else (t[2] if t[0] % 3 == 0 else t[1])
)
f64_mostly = st.tuples(st.integers(0, 11), f64_2digit, f64).map(lambda t: t[2] if t[0] == 11 else t[1])
i64 = st.one_of(st.integers(-(2**63), 2**63 - 1), st.integers(-50, 50))


def spread(values):
    """Like sampled_from but without Hypothesis' preference for the first element."""
    return st.sampled_from(list(values))


def text(maxlen):
    """Printable ASCII without trailing blanks (padding); one in four starts with blanks."""
    plain = st.text(alphabet=PRINTABLE, max_size=maxlen).map(lambda s: s.rstrip(" "))
    lead = st.tuples(st.integers(1, 3), st.text(alphabet=PRINTABLE, min_size=1, max_size=maxlen)).map(
        lambda t: ((" " * t[0]) + t[1])[:maxlen].rstrip(" ")
    )
    return st.one_of(plain, plain, plain, lead)


def _str_field():
    return st.tuples(text(24), st.integers(0, 8)).map(lambda t: {"t": "str", "v": t[0], "n": len(t[0]) + t[1]})


def _list_field():
    return st.one_of(
        st.lists(i32, max_size=6).map(lambda v: {"t": "list", "of": "int", "v": v}),
        st.lists(f32, max_size=6).map(lambda v: {"t": "list", "of": "float", "v": v}),
        st.lists(f64_mostly, max_size=6).map(lambda v: {"t": "list", "of": "double", "v": v}),
        st.tuples(st.lists(text(8), max_size=5), st.integers(0, 4)).map(
            lambda t: {"t": "list", "of": "str", "v": t[0], "n": max([len(s) for s in t[0]] + [0]) + t[1]}
        ),
    )


def _matrix_field():
    return st.fixed_dictionaries(
        {
            "t": st.sampled_from(["matrix", "dmatrix", "imatrix"]),
            "shape": st.lists(st.integers(0, 4), min_size=1, max_size=3),
            "seed": st.integers(0, 2**32),
        }
    )


MAP_KEYS = ["NINTI", "EFFK", "POWER", "KMAX", "X1", "ITER", "time", "jmax", "Lambda", "M", "a", "nSurf", "IDUM01", "effk", "H", "O"]


def _map_field():
    return st.lists(st.tuples(st.sampled_from(MAP_KEYS), i32, f32), min_size=1, max_size=6, unique_by=lambda t: t[0]).map(
        lambda items: {"t": "map", "keys": [k for k, _, _ in items], "v": [i if fm.scalar_kind(k) == "int" else x for k, i, x in items]}
    )


def field():
    return st.one_of(
        i32.map(lambda v: {"t": "int", "v": v}),
        i64.map(lambda v: {"t": "long", "v": v}),
        f32.map(lambda v: {"t": "float", "v": v}),
        f64_mostly.map(lambda v: {"t": "double", "v": v}),
        st.booleans().map(lambda v: {"t": "bool", "v": v}),
        _str_field(),
        _list_field(),
        _matrix_field(),
        _map_field(),
    )


def record_case(tier):
    return st.fixed_dictionaries(
        {
            "records": st.lists(st.lists(field(), min_size=0, max_size=8), min_size=1, max_size=3),
            "boundaries": st.sampled_from([True, True, True, False]),
        }
    )


# ------------------------------------------------------------------------------------------------
# formats


def _common():
    return {
        "seed": st.integers(0, 2**32),
        "pal32": st.lists(f32, max_size=4),
        "pal64": st.lists(f64_2digit, max_size=4),
        "label": text(28),
    }


def _fd(d):
    x = _common()
    x.update(d)
    return st.fixed_dictionaries(x)


def geodst_case(tier):
    return _fd({
        "igom": st.one_of(st.sampled_from([14, 12, 13, 15, 16, 17, 18]), st.sampled_from([1, 2, 3]), st.sampled_from([6, 7, 8, 9, 10, 11]), st.just(0)),
        "nc": st.tuples(st.integers(1, 4), st.integers(1, 4), st.integers(1, 3)).map(list),
        "fine": st.integers(1, 3),
        "nreg": st.integers(1, 6),
        "nzone": st.integers(1, 5),
        "nbs": st.integers(0, 3),
        "nbcs": st.integers(0, 3),
        "nibcs": st.integers(0, 3),
        "nzwbb": st.integers(0, 3),
        "nrass": spread([1, 0]),
    })


def dif3d_case(tier):
    return _fd({"numorp": st.integers(0, 5), "ncmrzs": st.integers(0, 5)})


def labels_case(tier):
    small = st.integers(0, 4)
    return _fd({
        "n": st.tuples(small, small, small, small, st.integers(0, 3), st.integers(0, 3), st.integers(0, 4), st.integers(0, 3)).map(list),
        "banks": st.sampled_from([0] * 15 + [1]),
        "burnup": st.sampled_from([[0, 0, 0]] * 15 + [[1, 0, 0], [0, 2, 0], [0, 0, 1]]),
    })


def pwdint_case(tier):
    return _fd({"n": st.tuples(st.integers(1, 5), st.integers(1, 6), st.integers(1, 4)).map(list), "blk": spread([5, 4, 3, 2, 1, 0])})


def rtflux_case(tier):
    return _fd({
        "ndim": spread([2, 3, 3, 3, 2, 3, 3, 2, 1, 0]),
        "n": st.tuples(st.integers(1, 4), st.integers(1, 5), st.integers(1, 3)).map(list),
        "ng": st.integers(1, 4),
        "blk": spread([4, 3, 2, 1, 0]),
        "adjoint": st.booleans(),
    })


def rzflux_case(tier):
    return _fd({"nz": st.integers(1, 8), "ng": st.integers(1, 5), "blk": spread([7, 6, 5, 4, 3, 2, 1, 0])})


def fixsrc_case(tier):
    return _fd({"n": st.tuples(st.integers(1, 4), st.integers(1, 4), st.integers(1, 3), st.integers(1, 3)).map(list), "f32": st.booleans()})


def nhflux_case(tier):
    return _fd({
        "variant": st.booleans(),
        "adjoint": st.booleans(),
        "ng": st.integers(1, 3),
        "nz": st.integers(1, 3),
        "na": st.integers(1, 4),
        "nsurf": st.sampled_from([6, 6, 4, 3]),
        "nmom": st.integers(1, 4),
        "nmoms": st.integers(0, 3),
        "nscoef": st.integers(1, 3),
        "next": st.integers(0, 5),
        "nsym": st.integers(0, 2),
        "nsec": st.integers(0, 2),
        "iwnhfl": spread([0, 0, 0, 1, 1, 2]),
        "sets": st.sampled_from([1, 1, 1, 2]),
    })


# ------------------------------------------------------------------------------------------------
# cross-section libraries derived from the shipped fixtures


def isotxs_case(tier):
    return st.fixed_dictionaries({
        "kind": st.sampled_from(["isotxs", "gamiso"]),
        "fixture": st.integers(0, 3),
        "pick": st.lists(st.integers(0, 60), min_size=1, max_size=5, unique=True),
        "nsblok": spread([1, 1, 2, 3, 4, 33]),
        "drop_xs": st.lists(st.sampled_from(["nalph", "np", "n2n", "nd", "nt"]), max_size=2, unique=True),
        "drop_block": st.integers(0, 12),
        "strpd": st.integers(0, 2),
        "fileChi": st.booleans(),
        "scale": spread([0.5, 1.0, 2.0, -1.0, 0.0]),
        "seed": st.integers(0, 2**32),
        "label": text(24),
        "libLabel": text(40),
        "ascii": st.booleans(),
        "upscatter": st.sampled_from([2, 0, 1, 5, 3, 0]),
    })


def pmatrx_case(tier):
    return st.fixed_dictionaries({
        "fixture": st.integers(0, 3),
        "pick": st.lists(st.integers(0, 60), min_size=1, max_size=5, unique=True),
        "dose": st.booleans(),
        "flags": st.lists(st.tuples(st.booleans(), st.booleans(), st.integers(0, 3)).map(list), min_size=5, max_size=5),
        "activation": st.sampled_from([0] * 9 + [1]),
        "seed": st.integers(0, 2**32),
        "ascii": st.booleans(),
    })


def dlayxs_case(tier):
    return st.fixed_dictionaries({
        "pick": st.lists(st.integers(0, 13), min_size=1, max_size=6, unique=True),
        "scratch": st.booleans(),
        "ng": st.integers(1, 5),
        "nfam": st.integers(1, 8),
        "label": text(40),
        "ndummy2": st.integers(0, 3),
        "seed": st.integers(0, 2**32),
        "ascii": st.sampled_from([False, False, True]),
    })


def compxs_case(tier):
    return st.fixed_dictionaries({
        "order": spread(range(4)),
        "regions": st.lists(st.integers(0, 2), min_size=1, max_size=4),
        "fileChi": st.sampled_from([0] * 9 + [1]),
        "delayed": st.sampled_from([0] * 9 + [2]),
        "scale": st.sampled_from([1.0, 0.5, -2.0]),
        "seed": st.integers(0, 2**32),
        "binary_first": st.booleans(),
        "d1d2": st.booleans(),
        # chi flag per composition: None = as shipped (0, 1, 1); 0 not fissile, 1 vector, n > 1 matrix of n columns
        "chi": st.lists(st.sampled_from([None, 0, 1, 2, 3, 11]), min_size=3, max_size=3),
    })
