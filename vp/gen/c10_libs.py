"""G-lib for C10: cross-section libraries derived from the shipped fixtures.

A *library spec* (plain JSON data) selects a fixture file, a subset of its nuclides, a new xs-ID suffix, a group
count (the leading groups of the fixture are kept), a value scale, optional reactions / scatter blocks to drop and
a scatter band width.  ``materialise`` renders the spec to a real ISOTXS / GAMISO / PMATRX file through armi's own
writers; the objects under test are always what armi's *readers* produce from those files, and the reference data
("source snapshot") is taken from such a read-back object too, so nothing the harness does while preparing the file
enters the oracle.
"""
import os

KINDS = ("iso", "gam", "pmx")
SUFFIXES = ("AA", "AB", "AC", "AD")
OPTIONAL_RX = ("nalph", "np", "n2n", "nd", "nt")
PROPS = (
    "neutronEnergyUpperBounds",
    "neutronVelocity",
    "gammaEnergyUpperBounds",
    "neutronDoseConversionFactors",
    "gammaDoseConversionFactors",
)
META_ATTR = {"iso": "isotxsMetadata", "gam": "gamisoMetadata", "pmx": "pmatrxMetadata"}
PMX_ARRAYS = ("neutronHeating", "neutronDamage", "gammaHeating", "isotropicProduction", "linearAnisotropicProduction")
# float32-exact multipliers so that libraries made from the same fixture are distinguishable
SCALES = (1.0, 0.5, 2.0, 1.25)
N_FIXTURE_NUCS = 25

_base_cache = {}


def fixture_path(kind, base):
    import armi.tests
    from armi.nuclearDataIO import tests as ndtests

    fd = os.path.join(os.path.dirname(ndtests.__file__), "fixtures")
    if kind == "iso":
        if base == "FW":  # 33 groups, 50 nuclides, file-wide chi
            return armi.tests.ISOAA_PATH
        return os.path.join(fd, "ISO" + base)
    return os.path.join(fd, "%s.%s" % (base, "gamiso" if kind == "gam" else "pmatrx"))


def reader(kind):
    from armi.nuclearDataIO.cccc import gamiso, isotxs, pmatrx

    return {"iso": isotxs.readBinary, "gam": gamiso.readBinary, "pmx": pmatrx.readBinary}[kind]


def writer(kind):
    from armi.nuclearDataIO.cccc import gamiso, isotxs, pmatrx

    return {"iso": isotxs.writeBinary, "gam": gamiso.writeBinary, "pmx": pmatrx.writeBinary}[kind]


def _base(kind, base):
    """Fixture library, read once per process; only ever used as a read-only source of arrays."""
    key = (kind, base)
    if key not in _base_cache:
        _base_cache[key] = reader(kind)(fixture_path(kind, base))
    return _base_cache[key]


def spec_base(spec):
    """The fixture actually used (GAMISO/PMATRX exist for AA and AB only)."""
    b = spec.get("base", "AA")
    if spec["kind"] != "iso" and b == "FW":
        b = "AA"
    return b


def spec_xsid(spec):
    """Two-character xs ID of the library: an explicit ``xsid`` string or an index into SUFFIXES."""
    if spec.get("xsid"):
        return spec["xsid"]
    return SUFFIXES[spec["suffix"] % len(SUFFIXES)]


def spec_labels(spec):
    """Nuclide labels the library will hold (deterministic, no armi import needed after the first call)."""
    src = _base(spec["kind"], spec_base(spec))
    n = len(src.nuclides)
    idx = []
    for i in spec["nucs"]:
        i %= n
        if i not in idx:
            idx.append(i)
    return idx, [src.nuclides[i].nucLabel + spec_xsid(spec) for i in idx]


def _copy_meta(dst, src, skip=()):
    import copy

    for k, v in src.items():
        if k not in skip:
            dst[k] = copy.deepcopy(v)


def _energy(arr, g, shift):
    import numpy as np

    e = np.array(arr[:g], dtype=float)
    if shift is True:
        e = e * 1.5  # same group count, every bound different
    elif shift:
        for k in {int(i) % g for i in shift}:  # same group count, only these bounds different
            e[k] = e[k] * 1.5
    return e


def materialise(spec, path):
    """Write the library described by ``spec`` to ``path`` with armi's writer.  Returns the path."""
    import numpy as np
    from scipy import sparse

    from armi.nuclearDataIO import xsLibraries, xsNuclides
    from armi.utils import properties

    kind = spec["kind"]
    src = _base(kind, spec_base(spec))
    idx, labels = spec_labels(spec)
    scale = SCALES[spec.get("scale", 0) % len(SCALES)]
    lib = xsLibraries.IsotxsLibrary()
    properties.unlockImmutableProperties(lib)
    try:
        if kind in ("iso", "gam"):
            smeta = getattr(src, META_ATTR[kind])
            fullG = smeta["numGroups"]
            g = max(1, min(spec["ng"] if kind == "iso" else spec["gg"], fullG))
            meta = getattr(lib, META_ATTR[kind])
            _copy_meta(meta, smeta)
            meta["numGroups"] = g
            if smeta["chi"] is not None:
                meta["chi"] = np.array(smeta["chi"][:g], dtype=float)
            fwChi = kind == "iso" and spec.get("fwChi") and smeta["chi"] is None
            if fwChi:
                # file-wide fission spectrum: the first fissile nuclide's chi, nuclides refer to it (chiFlag 0)
                fis = [x for x in src.nuclides if x.isotxsMetadata["fisFlag"] > 0]
                meta["fileWideChiFlag"] = 1
                meta["chi"] = np.array(fis[0].micros.chi[:g], dtype=float)
            if kind == "iso":
                lib.neutronVelocity = np.array(src.neutronVelocity[:g], dtype=float)
                lib.neutronEnergyUpperBounds = _energy(src.neutronEnergyUpperBounds, g, spec.get("shiftE"))
            else:
                meta["gammaVelocity..NOT"] = np.array(smeta["gammaVelocity..NOT"][:g], dtype=float)
                lib.gammaEnergyUpperBounds = _energy(src.gammaEnergyUpperBounds, g, spec.get("shiftE"))
            nblocks = smeta["maxScatteringBlocks"]
            band = spec.get("band", 0)
            up = int(spec.get("upscatter") or 0)
            if up:
                meta["maxUpScatterGroups"] = max(int(smeta["maxUpScatterGroups"] or 0), min(up, g - 1))

            def with_upscatter(dense):
                for row in range(g):
                    for u in range(1, up + 1):
                        if row + u < g:
                            dense[row, row + u] = 0.25 * dense[row, row] / u + 0.0009765625
                return dense
            dropRx = [OPTIONAL_RX[i % len(OPTIONAL_RX)] for i in spec.get("dropRx", [])]
            dropBlocks = [i % nblocks for i in spec.get("dropBlocks", [])]
            for i, label in zip(idx, labels):
                sn = src.nuclides[i]
                n = xsNuclides.XSNuclide(lib, label)
                n._base = sn._base
                sm = getattr(sn, META_ATTR[kind])
                nm = getattr(n, META_ATTR[kind])
                _copy_meta(nm, sm, skip=("jband", "jj"))
                nm["jband"] = {}
                nm["jj"] = {}
                for b in range(nblocks):
                    for j in range(g):
                        jb = sm["jband"][j, b]
                        if band:
                            jb = max(1, min(jb, band))
                        # up-scatter: JJ > 1 puts jj-1 entries of row j above the diagonal (columns j+1 .. j+jj-1)
                        jj = sm["jj"][j, b] + min(up, g - 1 - j)
                        nm["jband"][j, b] = jb + (jj - sm["jj"][j, b])
                        nm["jj"][j, b] = jj
                if kind == "iso":
                    for rx in dropRx:
                        nm[rx] = 0
                    if spec.get("dropFission") and sm["fisFlag"] > 0:
                        nm["fisFlag"] = 0
                        nm["chiFlag"] = 0
                    elif fwChi and sm["fisFlag"] > 0:
                        nm["chiFlag"] = 0
                ords = np.array(sm["ords"])
                for b in dropBlocks:
                    ords[b] = 0
                nm["ords"] = ords
                sc = sn.micros if kind == "iso" else sn.gammaXS
                dc = n.micros if kind == "iso" else n.gammaXS
                for name, val in sc.__dict__.items():
                    if name in ("source", "numGroups"):
                        continue
                    if name == "higherOrderScatter":
                        dc.higherOrderScatter = {
                            k: sparse.csr_matrix(with_upscatter(m.toarray()[:g, :g] * scale)) for k, m in val.items()
                        }
                    elif val is None:
                        continue
                    elif sparse.issparse(val):
                        dc[name] = sparse.csr_matrix(with_upscatter(val.toarray()[:g, :g] * scale))
                    else:
                        arr = np.array(val[:g], dtype=float)
                        if name not in ("chi", "neutronsPerFission"):
                            arr = arr * scale
                        elif name == "neutronsPerFission" and spec.get("multVariant"):
                            arr = arr * (1.0 + 0.25 * spec["multVariant"])  # a library with other multiplier data
                        dc[name] = arr
                if kind == "iso" and spec.get("multVariant"):
                    nm["efiss"] = nm["efiss"] * 2.0 * spec["multVariant"]
                    nm["ecapt"] = nm["ecapt"] * 0.5 / spec["multVariant"]
                if kind == "iso":
                    # energy-per-reaction constants of exactly 0.0 next to non-zero cross sections (as for CM247, HF174.. in
                    # armi/tests/ISOAA)
                    j = idx.index(i)
                    if j in {int(z) % len(idx) for z in spec.get("zeroEcapt", [])}:
                        nm["ecapt"] = 0.0
                    if j in {int(z) % len(idx) for z in spec.get("zeroEfiss", [])}:
                        nm["efiss"] = 0.0
                lib[label] = n
        else:
            smeta = src.pmatrxMetadata
            gn = max(1, min(spec["ng"], smeta["numNeutronGroups"]))
            gg = max(1, min(spec["gg"], smeta["numGammaGroups"]))
            meta = lib.pmatrxMetadata
            _copy_meta(meta, smeta)
            meta["numNeutronGroups"] = gn
            meta["numGammaGroups"] = gg
            lib.neutronEnergyUpperBounds = _energy(src.neutronEnergyUpperBounds, gn, spec.get("shiftE"))
            lib.gammaEnergyUpperBounds = _energy(src.gammaEnergyUpperBounds, gg, spec.get("shiftG"))
            if int(spec.get("prodOrder") or 1) > 1:
                meta["maxScatteringOrder"] = int(spec["prodOrder"])
            if spec.get("dose"):
                meta["hasDoseConversionFactor"] = True
                d = spec["dose"]
                lib.neutronDoseConversionFactors = np.array([0.25 * d * (k + 1) for k in range(gn)])
                lib.gammaDoseConversionFactors = np.array([0.5 * d * (k + 2) for k in range(gg)])
            for i, label in zip(idx, labels):
                sn = src.nuclides[i]
                n = xsNuclides.XSNuclide(lib, label)
                n._base = sn._base
                _copy_meta(n.pmatrxMetadata, sn.pmatrxMetadata)
                if spec.get("dropHeating"):
                    n.pmatrxMetadata["hasGammaHeating"] = False
                n.neutronHeating = np.array(sn.neutronHeating[:gn]) * scale
                n.neutronDamage = np.array(sn.neutronDamage[:gn]) * scale
                n.gammaHeating = np.array(sn.gammaHeating[:gg]) * scale
                n.isotropicProduction = np.array(sn.isotropicProduction[:gg, :gn]) * scale
                order = int(spec.get("prodOrder") or 1)
                if order > 1:  # production matrices beyond the isotropic one (the fixtures stop at order 1)
                    n.pmatrxMetadata["maxScatteringOrder"] = order
                    n.linearAnisotropicProduction = n.isotropicProduction * 0.5
                    for k in range(3, order + 1):
                        n.nOrderProductionMatrix[k] = n.isotropicProduction * (0.5 ** (k - 1))
                lib[label] = n
    finally:
        properties.lockImmutableProperties(lib)
    writer(kind)(lib, path)
    return path


# ------------------------------------------------------------------------------------------------
# snapshots: plain nested python data, compared with ==


def norm(v):
    """Plain, order-independent, exactly comparable rendering of a metadata / data value."""
    import numpy as np
    from scipy import sparse

    if v is None or isinstance(v, (bool, int, float, str)):
        return v
    if isinstance(v, np.generic):
        return v.item()
    if sparse.issparse(v):
        return ("dense", tuple(v.shape), norm(v.toarray().tolist()))
    if isinstance(v, np.ndarray):
        return ("array", tuple(v.shape), norm(v.tolist()))
    if isinstance(v, dict):
        return ("dict", tuple(sorted(((norm(k), norm(x)) for k, x in v.items()), key=repr)))
    if isinstance(v, (list, tuple)):
        return tuple(norm(x) for x in v)
    return ("repr", repr(v))


def meta_snapshot(meta):
    # a missing key reads as None (``_Metadata.__getitem__``), so None-valued keys are not content
    d = {str(k): norm(v) for k, v in meta.items() if v is not None}
    if hasattr(meta, "fileNames"):
        d["<fileNames>"] = tuple(sorted(os.path.basename(str(f)) for f in meta.fileNames))
    return d


def collection_snapshot(coll):
    return {k: norm(v) for k, v in coll.__dict__.items() if k != "source"}


def nuclide_snapshot(nuc):
    """Per data kind: everything the nuclide holds for that kind."""
    snap = {
        "iso": {"meta": meta_snapshot(nuc.isotxsMetadata), "xs": collection_snapshot(nuc.micros)},
        "gam": {"meta": meta_snapshot(nuc.gamisoMetadata), "xs": collection_snapshot(nuc.gammaXS)},
        "pmx": {
            "meta": meta_snapshot(nuc.pmatrxMetadata),
            "xs": dict([(a, norm(getattr(nuc, a))) for a in PMX_ARRAYS] + [("nOrder", norm(nuc.nOrderProductionMatrix))]),
        },
    }
    ident = {
        "key": str(nuc.containerKey),
        "nucLabel": str(nuc.nucLabel),
        "xsId": str(nuc.xsId),
        "base": None if nuc._base is None else nuc._base.name,
    }
    return ident, snap


def has_kind(nsnap, kind):
    """Does a nuclide snapshot hold data of this kind?"""
    return bool(nsnap[kind]["meta"])


def library_snapshot(lib):
    """labels (as a sorted list), library properties, file metadata, per-nuclide data."""
    labels = [str(x) for x in lib.nuclideLabels]
    nucs = {}
    ident = {}
    for lab in labels:
        nuc = lib[lab]
        ident[lab], nucs[lab] = nuclide_snapshot(nuc)
        ident[lab]["containerIsLib"] = nuc.container is lib
    return {
        "labels": sorted(labels),
        "labelCount": len(labels),
        "dictKeys": sorted(str(k) for k in lib._nuclides),
        "props": {p: norm(getattr(lib, "_" + p, None)) for p in PROPS},
        "meta": {k: meta_snapshot(getattr(lib, a)) for k, a in META_ATTR.items()},
        "ident": ident,
        "nucs": nucs,
    }


def diff_paths(a, b, path="", limit=4):
    """Short description of where two snapshots differ (for messages)."""
    out = []

    def rec(x, y, p):
        if len(out) >= limit:
            return
        if isinstance(x, dict) and isinstance(y, dict):
            for k in sorted(set(x) | set(y), key=str):
                if k not in x:
                    out.append("%s/%s only in second" % (p, k))
                elif k not in y:
                    out.append("%s/%s only in first" % (p, k))
                elif x[k] != y[k]:
                    rec(x[k], y[k], "%s/%s" % (p, k))
                if len(out) >= limit:
                    return
        elif x != y:
            out.append("%s: %s != %s" % (p, str(x)[:80], str(y)[:80]))

    rec(a, b, path)
    return "; ".join(out)
