"""C18 generator: plain-data blueprint specs -> blueprint YAML text.

``bp_spec()`` is a Hypothesis strategy of JSON specs, ``render(spec)`` gives the YAML document.  Every spec is a
well-formed blueprint by construction (pins fit in the duct, derived coolant area positive, material modifications only
where a component of the block accepts them, all assembly designs share one outer pitch).  The expectation is NOT derived
from the spec: vp/model/c18_bp_eval.py reads the rendered text.
"""
import math

from hypothesis import strategies as st

from vp.model import c18_maps as mm

SQRT3 = math.sqrt(3.0)
SPECIFIERS = ["IC", "OC", "RR", "SH"]
PIN_COUNTS = [1, 7, 19, 37, 3, 12, 24]
MEAT_MATERIALS = ["UZr", "UZr+iso", "UraniumOxide", "UraniumOxide", "B4C", "B4C", "HT9", "Custom", "UZr+iso", "HT9+iso", "UZr", "UZr+iso"]
# material modification names per material family (the documented table in doc/user/inputs.rst)
MODS = {"UZr": ["U235_wt_frac", "ZR_wt_frac"], "UraniumOxide": ["U235_wt_frac", "TD_frac"], "B4C": ["B10_wt_frac", "TD_frac"]}
MEAT_NAMES = {
    "UZr": ["fuel", "fuel", "fuel1", "inner fuel", "fuel test"],
    "UraniumOxide": ["fuel", "fuel2", "blanket fuel"],
    "B4C": ["control", "primary control", "poison"],
    "HT9": ["reflector", "shield", "radial reflector"],
    "Custom": ["fuel", "slug", "moderator"],
}
BLOCK_NAMES = {
    "UZr": ["fuel", "inner fuel", "fuel test", "driver fuel", "fuel zone"],
    "UraniumOxide": ["fuel", "blanket fuel", "axial blanket"],
    "B4C": ["control", "primary control", "shutdown control"],
    "HT9": ["reflector", "radial shield", "axial shield", "shield block"],
    "Custom": ["fuel", "test", "moderator block"],
    "solid": ["grid plate", "reflector", "lower reflector", "dummy", "structure zone", "inlet nozzle"],
    "plenum": ["plenum", "upper plenum", "gas plenum"],
}
ASSEM_NAMES = ["inner fuel", "outer core", "radial reflector", "shield assem", "igniter fuel", "feed fuel", "control", "test zone"]
SHAPE_SPELLING = [lambda s: s, lambda s: s, lambda s: s.lower(), lambda s: s.upper()]

DEFAULT_NUCLIDE_FLAGS = (
    [("U%d" % a, True) for a in (234, 235, 236, 238)]
    + [("NP%d" % a, True) for a in (237, 238)]
    + [("PU%d" % a, True) for a in (236, 238, 239, 240, 241, 242)]
    + [("AM%d" % a, True) for a in (241, 242, 243)]
    + [("CM%d" % a, True) for a in range(242, 248)]
    + [("LFP%d" % a, True) for a in (35, 38, 39, 40, 41)]
    + [("DUMP1", True), ("DUMP2", True), ("B10", False), ("B11", False)]
    + [(s, False) for s in ["ZR", "C", "SI", "V", "CR", "MN", "FE", "NI", "MO", "W", "NA", "HE"]]
)

ISO_NUCLIDES = ["U235", "U238", "PU239", "ZR", "FE", "CR", "NA", "C", "B10", "NI", "MO"]


def r4(x):
    return round(float(x), 4)


# ---------------------------------------------------------------------------------------------------------------
# strategy


@st.composite
def _isotopic(draw, idx):
    fmt = draw(st.sampled_from(["number densities", "mass fractions", "mass fractions+density", "number fractions", "number fractions+density"]))
    n = draw(st.integers(1, 4))
    start = draw(st.integers(0, len(ISO_NUCLIDES) - 1))
    step = draw(st.sampled_from([1, 3, 4]))
    # a U-Zr vector (only U235, U238, ZR): the kind of entry that several UZr components share and that the UZr material
    # modifications (U235_wt_frac, ZR_wt_frac) can be combined with
    uzr = draw(st.sampled_from([True, False, True])) if idx == 0 else draw(st.sampled_from([False, True, False]))
    nucs = []
    if uzr:
        rot = draw(st.integers(0, 2))
        nucs = (["U235", "U238", "ZR"] * 2)[rot:rot + 3]
    for k in range(0 if uzr else n):
        nuc = ISO_NUCLIDES[(start + k * step) % len(ISO_NUCLIDES)]
        if nuc not in nucs:
            nucs.append(nuc)
    if fmt == "number densities":
        vals = [float("%.5e" % draw(st.floats(1e-5, 5e-2))) for _ in nucs]
    else:
        raw = [draw(st.integers(1, 20)) for _ in nucs]
        tot = sum(raw)
        vals = [round(x / tot, 6) for x in raw]
        vals[-1] = round(1.0 - sum(vals[:-1]), 6)
    return {
        "name": "ISO%d" % idx,
        "format": fmt.split("+")[0],
        "density": r4(draw(st.floats(0.8, 19.0))) if fmt.endswith("+density") else None,
        "items": [[nuc, v] for nuc, v in zip(nucs, vals)],
        "uzr": uzr,
    }


@st.composite
def _block(draw, idx, hexgeom, allow_oxide, isotopics, allow_grid):
    template = draw(st.sampled_from(["pin", "pin", "pin", "solid", "plenum"]))
    b = {"template": template, "idx": idx}
    b["thot"] = round(draw(st.floats(300.0, 650.0)), 1)
    b["tin"] = draw(st.sampled_from([25.0, 20.0, 25.0]))
    b["ductFrac"] = [r4(draw(st.floats(0.95, 0.985))), r4(draw(st.floats(0.93, 0.97)))]
    b["ductShape"] = "Hexagon" if hexgeom else draw(st.sampled_from(["Rectangle", "Square"]))
    b["spell"] = draw(st.integers(0, len(SHAPE_SPELLING) - 1))
    b["rotate"] = draw(st.integers(0, 6))
    b["explicitBlockFlags"] = draw(st.sampled_from([None, None, None, "fuel", "reflector test", "shield a"]))
    if template == "pin":
        choices = [m for m in MEAT_MATERIALS if (allow_oxide or m != "UraniumOxide") and (isotopics or ("iso" not in m and m != "Custom"))]
        meat = draw(st.sampled_from(choices))
        if meat == "UZr" and any(i.get("uzr") for i in isotopics) and draw(st.booleans()):
            meat = "UZr+iso"
        iso = None
        if meat == "Custom" or meat.endswith("+iso"):
            iso = draw(st.integers(0, len(isotopics) - 1))
            shared = [k for k, i in enumerate(isotopics) if i.get("uzr")]
            if meat == "UZr+iso" and shared:
                iso = shared[0]  # every UZr user names the same entry
        b["meat"] = meat.split("+")[0]
        b["iso"] = iso
        fam = b["meat"]
        b["meatName"] = draw(st.sampled_from(MEAT_NAMES[fam]))
        b["nameChoice"] = draw(st.integers(0, 10))
        b["n"] = draw(st.sampled_from(PIN_COUNTS)) if hexgeom else draw(st.integers(1, 25))
        b["multStyle"] = draw(st.sampled_from(["float", "int", "float"]))
        b["linkMult"] = draw(st.booleans())
        b["annular"] = draw(st.integers(0, 4)) == 0
        b["gap"] = draw(st.sampled_from(["bond", "bond", "void", "liner", None]))
        b["wire"] = draw(st.booleans())
        # hex assemblies with an inner and an outer duct (the pin bundle sits in the inner one), optionally with the
        # coolant between the ducts as a component of its own, linked to both ducts
        b["twoDucts"] = bool(hexgeom and draw(st.integers(0, 2)) == 0)
        b["interduct"] = draw(st.booleans())
        b["fr"] = [r4(draw(st.floats(0.85, 0.92))), r4(draw(st.floats(0.8, 0.95))), r4(draw(st.floats(0.45, 0.95)))]
        b["twoTypes"] = bool(draw(st.integers(0, 3)) == 0 and fam in MODS and (iso is None or (fam == "UZr" and isotopics[iso].get("uzr"))))
        b["grid"] = bool(allow_grid and draw(st.integers(0, 2)) == 0)  # hex pin lattice in hex blocks, Cartesian in Cartesian
        # a further component on the lattice whose shape has NO default multiplicity (Circle and Hexagon default to 1):
        # its mult can only come from the lattice when it is left off, as the documentation recommends
        b["latticeExtra"] = draw(st.sampled_from(["Square", None, "Rectangle", "SolidRectangle", None]))  # (Triangle has no bounding circle in armi: no block with one can be built)
        b["extraMult"] = draw(st.sampled_from(["omit", "count", "omit", "one"]))
        b["gridRoute"] = draw(st.sampled_from(["map", "contents"]))
        b["gridFill"] = draw(st.lists(st.integers(0, 5), min_size=1, max_size=12))
        b["gridTrim"] = draw(st.booleans())
        b["gridMult"] = draw(st.sampled_from(["omit", "omit", "one", "count"]))
        b["compFlags"] = draw(st.sampled_from([None, None, None, "fuel depletable", "fuel", "control test", "depletable slug"]))
        b["axialTarget"] = draw(st.sampled_from([None, None, "clad", "meat"]))
    elif template == "solid":
        b["nameChoice"] = draw(st.integers(0, 10))
        b["fr"] = [r4(draw(st.floats(0.88, 0.97)))]
        b["holes"] = draw(st.sampled_from([0, 0, 6, 19]))
        b["holeFr"] = r4(draw(st.floats(0.02, 0.08)))
        b["solidName"] = draw(st.sampled_from(["reflector", "shield", "structure", "grid plate1", "block"]))
    else:
        b["nameChoice"] = draw(st.integers(0, 10))
        b["n"] = draw(st.sampled_from(PIN_COUNTS)) if hexgeom else draw(st.integers(1, 25))
        b["fr"] = [r4(draw(st.floats(0.85, 0.92))), r4(draw(st.floats(0.5, 0.9)))]
        b["wire"] = False
    return b


@st.composite
def bp_spec(draw, max_rings=3, tier="quick", allow_int_ids=False):
    geom = draw(st.sampled_from(["hex", "hex_corners_up", "cartesian", "hex", "cartesian"]))
    hexgeom = geom.startswith("hex")
    if hexgeom:
        symmetry = draw(st.sampled_from(["third periodic", "full"]))
    else:
        symmetry = draw(st.sampled_from(["full", "quarter reflective", "full", "quarter reflective through center assembly"]))
    spec = {"geom": geom, "symmetry": symmetry}
    spec["pitch"] = round(draw(st.floats(8.0, 20.0)), 3)
    spec["ry"] = 1.0 if hexgeom else draw(st.sampled_from([1.0, 1.0, 0.8]))
    spec["latticePitch"] = draw(st.sampled_from([None, None, 1.0, 1.05]))
    spec["origin"] = [draw(st.sampled_from([0.0, 0.0, 10.5, -3.25])), draw(st.sampled_from([0.0, 10.1])), draw(st.sampled_from([0.0, 1.1]))]
    spec["nucflags"] = draw(st.sampled_from(["default", "explicit", "explicit-O16"]))
    allow_oxide = spec["nucflags"] != "default"
    n_iso = draw(st.sampled_from([1, 2, 0, 1]))
    spec["isotopics"] = [draw(_isotopic(k)) for k in range(n_iso)]
    n_blocks = draw(st.integers(1, 4))
    spec["blocks"] = [draw(_block(k, hexgeom, allow_oxide, spec["isotopics"], True)) for k in range(n_blocks)]
    for b in spec["blocks"]:
        # pin `grid contents` written with bare integers (1 instead of '1'); only drawn while that shape is searched
        b["gridIntIds"] = bool(allow_int_ids and draw(st.booleans()))
        if b["gridIntIds"] and b.get("grid"):
            b["gridRoute"] = "contents"  # (only explicit contents can carry integers; map tokens are always text)
    n_designs = draw(st.sampled_from([2, 3, 2, 3, 1]))
    shared_heights = [round(draw(st.floats(5.0, 60.0)), 3) for _ in range(4)]
    spec["sharedHeights"] = shared_heights
    # without detailed axial expansion every assembly must conform to one axial mesh (documented: "be sure all block
    # interfaces are consistent among all assemblies"); with it the designs are free
    spec["detailed"] = draw(st.booleans())
    common_nb = draw(st.integers(1, 4))
    designs = []
    for d in range(n_designs):
        share = draw(st.booleans())
        nb = draw(st.integers(1, 4)) if spec["detailed"] else common_nb
        des = {
            "name": ASSEM_NAMES[draw(st.integers(0, len(ASSEM_NAMES) - 1))] + ("" if d == 0 else " %d" % d),
            "specifier": SPECIFIERS[d],
            "flags": draw(st.sampled_from([None, None, None, "fuel", "reflector radial", "control primary"])),
            "blocks": [draw(st.integers(0, n_blocks - 1)) for _ in range(nb)],
            "share": share,
            "heights": [round(draw(st.floats(5.0, 60.0)), 3) for _ in range(nb)] if spec["detailed"] else shared_heights[:nb],
            "xs": [draw(st.sampled_from(["A", "B", "C", "D", "Z", "AA", "b"])) for _ in range(nb)],
            "mesh": [draw(st.integers(1, 4)) for _ in range(nb)],
            "nozzle": draw(st.sampled_from([None, None, "Inner", "Outer"])),
            "modVals": [[r4(draw(st.floats(0.02, 0.6))) for _ in range(nb)] for _ in range(4)],
            "modMask": [draw(st.integers(0, 15)) for _ in range(nb)],
            "modKinds": draw(st.integers(0, 7)),
        }
        designs.append(des)
    spec["designs"] = designs
    plan_shared_isotopics(spec)
    # core layout
    if hexgeom:
        kind = "hexThird" if symmetry.startswith("third") else ("hexFullFlat" if geom == "hex" else "hexFullTips")
        size = draw(st.sampled_from(list(range(max_rings - 1, 0, -1)) * 3 + [0]))
        cells = mm.domain_cells(kind, size) if size > 0 else [(0, 0)]
    else:
        kind = "cart"
        size = (draw(st.sampled_from([3, 2, 4, 1])), draw(st.sampled_from([2, 3, 4])))
        cells = mm.domain_cells(kind, size)
    fill = draw(st.lists(st.integers(0, 3 * n_designs), min_size=1, max_size=24))
    spec["core"] = {"kind": kind, "size": size, "fill": fill, "route": draw(st.sampled_from(["map", "contents"])),
                    "strip": draw(st.booleans()), "pad": draw(st.booleans()), "trim": draw(st.booleans())}
    spec["sfp"] = draw(st.booleans())
    return spec


def plan_shared_isotopics(spec):
    """When one custom-isotopics entry is used by several (design, position) users that accept modifications, the first
    user in construction order (designs in document order, blocks bottom to top) is given a by-block U235_wt_frac and the
    last one no modification at all: users of one entry differ in their modifications and a modified one comes first."""
    users = {}
    for di, d in enumerate(spec["designs"]):
        d["force"] = [None] * len(d["blocks"])
        for pos, bi in enumerate(d["blocks"]):
            b = spec["blocks"][bi]
            if b["template"] == "pin" and b["iso"] is not None and block_mod_names(spec, b):
                users.setdefault(b["iso"], []).append((di, pos))
    for occ in users.values():
        if len(occ) >= 2:
            spec["designs"][occ[0][0]]["force"][occ[0][1]] = "mod"
            spec["designs"][occ[-1][0]]["force"][occ[-1][1]] = "none"


def permuted(spec):
    """The same document with the assembly designs listed in reverse order and every stack of blocks upside down
    (design names, specifiers and the per-position data travel with their blocks)."""
    import copy

    s = copy.deepcopy(spec)
    s["designs"].reverse()
    for d in s["designs"]:
        nb = len(d["blocks"])
        if d["share"] and nb == len(s["sharedHeights"]):
            d["heights"] = list(s["sharedHeights"])
        d["share"] = False
        for key in ("blocks", "heights", "xs", "mesh", "modMask", "force"):
            d[key] = list(reversed(d[key]))
        d["modVals"] = [list(reversed(v)) for v in d["modVals"]]
    return s


# ---------------------------------------------------------------------------------------------------------------
# rendering


def _comp(name, fields, indent=8):
    L = [" " * indent + "%s:" % name]
    for k, v in fields:
        if v is None:
            continue
        L.append(" " * (indent + 4) + "%s: %s" % (k, v))
    return L


def _num(x):
    """repr of a number that YAML 1.1 and 1.2 both read as the same float (mantissa always has a dot)."""
    t = repr(x)
    if isinstance(x, float) and "e" in t and "." not in t.split("e")[0]:
        m, e = t.split("e")
        t = m + ".0e" + e
    return t


def block_name(spec, b):
    if b["template"] == "pin":
        base = BLOCK_NAMES[b["meat"]]
    else:
        base = BLOCK_NAMES[b["template"]]
    name = base[b["nameChoice"] % len(base)]
    # unique block names: an index word (digits only: contributes no flag) or an attached index (digits are stripped)
    if b["idx"] == 0:
        return name
    return "%s %d" % (name, b["idx"]) if b["nameChoice"] % 2 else "%s%d" % (name, b["idx"])


def two_types(b):
    return bool(b.get("twoTypes")) and b.get("n", 1) >= 2


def pin_grid_cells(b, hexgeom=True):
    """{(i,j): id} of the pin lattice of block spec ``b`` (full hex lattice of the pins, or a Cartesian one)."""
    n = b["n"]
    fill = b["gridFill"]
    if hexgeom is False:
        # Cartesian lattice: the smallest square holding n pins, centred indices (a full-core map is centred on reading)
        side = 1
        while side * side < n:
            side += 1
        out = {}
        for k, (i, j) in enumerate(mm.domain_cells("cart", (side, side))):
            f = fill[k % len(fill)]
            if f == 0 and side > 1 and k != 0:
                continue  # hole
            out[(i - side // 2, j - side // 2)] = "2" if (f == 5 and two_types(b)) else "1"
        cells = sorted(out)
        if two_types(b):
            out[cells[0]] = "2"
            out[(side - 1 - side // 2, side - 1 - side // 2)] = "1"
        # the corner cells fix the extent of the drawn map, which fixes the centring
        out.setdefault((-(side // 2), -(side // 2)), "1")
        out.setdefault((side - 1 - side // 2, side - 1 - side // 2), "1")
        return side, out
    rings = 1
    while 1 + 3 * rings * (rings - 1) < n:
        rings += 1
    R = rings - 1
    cells = mm.domain_cells("hexFullTips", R) if R > 0 else [(0, 0)]
    out = {}
    for k, c in enumerate(cells):
        f = fill[k % len(fill)]
        if f == 0 and len(cells) > 1 and k != 0:
            continue
        out[c] = "2" if (f == 5 and two_types(b)) else "1"
    if two_types(b):
        out[(0, 0)] = "2"
    # the conventions need the right edge of a drawn tips-up map to be occupied (see c18_maps)
    out[(R, 0)] = "1"
    if b.get("gridTrim") and R >= 1:
        out = {(i, j): v for (i, j), v in out.items() if i + j > -R}  # empty bottom row, left out of the map text
    return R, out


def render_block(spec, b, grids):
    hexgeom = spec["geom"].startswith("hex")
    P = round(spec["pitch"] * b.get("pitchScale", 1.0), 3)
    Py = round(P * spec["ry"], 4)
    spell = SHAPE_SPELLING[b["spell"]]
    tin, thot = b["tin"], b["thot"]
    op = r4(P * b["ductFrac"][0])
    ip = r4(op * b["ductFrac"][1])
    opy, ipy = r4(Py * b["ductFrac"][0]), r4(r4(Py * b["ductFrac"][0]) * b["ductFrac"][1])
    comps = []  # (name, [(key, value)...])
    name = block_name(spec, b)
    header = ["    %s: &block_%d" % (name, b["idx"])]
    if b["explicitBlockFlags"]:
        header.append("        flags: %s" % b["explicitBlockFlags"])

    two_ducts = bool(hexgeom and b["template"] == "pin" and b.get("twoDucts"))
    ip_pins = ip
    if two_ducts:
        in_op = r4(ip * 0.93)
        ip_pins = r4(in_op * 0.95)

    def duct_and_inter():
        if two_ducts:
            comps.append(("inner duct", [("shape", spell("Hexagon")), ("material", "HT9"), ("Tinput", tin), ("Thot", min(thot, 470.0)), ("ip", _num(ip_pins)), ("mult", 1), ("op", _num(in_op))]))
            if b.get("interduct"):
                comps.append(("interductcoolant", [("shape", spell("Hexagon")), ("material", "Sodium"), ("Tinput", 450.0), ("Thot", 450.0), ("ip", "inner duct.op"), ("mult", 1.0), ("op", "duct.ip")]))
        if hexgeom:
            comps.append(("duct", [("shape", spell("Hexagon")), ("material", "HT9"), ("Tinput", tin), ("Thot", min(thot, 470.0)), ("ip", _num(ip)), ("mult", 1), ("op", _num(op))]))
            comps.append(("intercoolant", [("shape", spell("Hexagon")), ("material", "Sodium"), ("Tinput", 450.0), ("Thot", 450.0), ("ip", "duct.op"), ("mult", 1.0), ("op", _num(P))]))
        elif b["ductShape"] == "Square" and spec["ry"] == 1.0:
            comps.append(("duct", [("shape", spell("Square")), ("material", "HT9"), ("Tinput", tin), ("Thot", min(thot, 470.0)), ("widthInner", _num(ip)), ("widthOuter", _num(op)), ("mult", 1.0)]))
            comps.append(("intercoolant", [("shape", spell("Square")), ("material", "Sodium"), ("Tinput", 450.0), ("Thot", 450.0), ("widthInner", "duct.widthOuter"), ("widthOuter", _num(P)), ("mult", 1.0)]))
        else:
            comps.append(("duct", [("shape", spell("Rectangle")), ("material", "HT9"), ("Tinput", tin), ("Thot", min(thot, 470.0)), ("lengthInner", _num(ip)), ("lengthOuter", _num(op)),
                                   ("widthInner", _num(ipy)), ("widthOuter", _num(opy)), ("mult", 1.0)]))
            comps.append(("intercoolant", [("shape", spell("Rectangle")), ("material", "Sodium"), ("Tinput", 450.0), ("Thot", 450.0), ("lengthInner", "duct.lengthOuter"), ("lengthOuter", _num(P)),
                                           ("widthInner", "duct.widthOuter"), ("widthOuter", _num(Py)), ("mult", 1.0)]))

    def pin_dims(n, wire):
        if hexgeom:
            rings = 1
            while 1 + 3 * rings * (rings - 1) < n:
                rings += 1
            pp = ip_pins * 0.985 / (SQRT3 * (rings - 1) + 1.15)
            clad_od = r4(pp * 0.88)
            wire_od = r4(pp * 0.10)
        else:
            inner = ip * ipy
            clad_od = r4(math.sqrt(0.55 * inner / n * 4.0 / math.pi))
            wire_od = r4(clad_od * 0.08)
        return clad_od, wire_od

    if b["template"] == "pin":
        n = b["n"]
        use_grid = b["grid"]
        if use_grid:
            R, cells = pin_grid_cells(b, hexgeom)
            gname = "pins%d" % b["idx"]
            grids[gname] = (R, cells, b["gridRoute"])
            header.append("        grid name: %s" % gname)
            n1 = sum(1 for v in cells.values() if v == "1")
            n2 = sum(1 for v in cells.values() if v == "2")
        # (a Cartesian pin lattice may hold up to side x side pins: they are sized for the full square)
        clad_od, wire_od = pin_dims(R * R if (use_grid and not hexgeom) else n, b["wire"])
        fault = b.get("fault")
        if fault == "pins-exceed-duct":
            # ARMI documents two refusals for oversized pins: HexBlock.verifyBlockDims (wire-wrapped bundle against the inner
            # duct; needs wire, clad and a hex duct) and DerivedShape._deriveVolumeAndArea ("component areas exceed the maximum
            # allowable volume").  Without a wire only the second exists, so the n clads alone are made 1.3 x the block area
            block_area = (SQRT3 / 2.0 * P * P) if hexgeom else P * Py
            k = max(2.2, math.sqrt(1.3 * block_area / (n * math.pi / 4.0 * clad_od ** 2)))
            clad_od = r4(clad_od * k)
        elif fault == "bundle-exceeds-inner-duct":
            # HexBlock.verifyBlockDims: the cold flat-to-flat of the wire-wrapped bundle, sqrt3 (rings-1) (clad od + wire od) +
            # clad od + 2 wire od, may exceed the inner flat-to-flat of the INNERMOST duct by at most 0.01 cm.  Here it is
            # 4 % wider than the inner duct's ip and still 8 % narrower than the outer duct's
            rings = 1
            while 1 + 3 * rings * (rings - 1) < n:
                rings += 1
            bundle = SQRT3 * (rings - 1) * (clad_od + wire_od) + clad_od + 2.0 * wire_od
            k = 1.04 * ip_pins / bundle
            clad_od, wire_od = r4(clad_od * k), r4(wire_od * k)
        clad_id = r4(clad_od * b["fr"][0])
        if fault == "clad-inside-out":
            clad_id = r4(clad_od * 1.3)
        has_gap = b["gap"] is not None
        meat_od = r4(clad_id * b["fr"][1]) if has_gap else clad_id
        meat_id = r4(meat_od * 0.3) if b["annular"] else 0.0
        mname = b["meatName"]
        two = two_types(b)
        names = [mname] if not two else [mname.rstrip("12") + "1", mname.rstrip("12") + "2"]
        if two and names[0] == names[1]:
            names = ["fuel1", "fuel2"]
        multval = (float(n) if b["multStyle"] == "float" else n)
        iso = spec["isotopics"][b["iso"]]["name"] if b["iso"] is not None else None
        for k, nm in enumerate(names):
            f = [("shape", spell("Circle")), ("material", b["meat"]), ("Tinput", tin), ("Thot", thot), ("id", _num(meat_id)), ("od", _num(meat_od))]
            if k == 0 and b["compFlags"]:
                f.insert(0, ("flags", b["compFlags"]))
            if iso:
                f.append(("isotopics", iso))
            elif fault == "isotopics-unknown" and k == 0:
                f.append(("isotopics", "NOSUCH"))
            if use_grid:
                ids = "[1]" if (k == 0) else "[2]"
                if not two:
                    ids = "[1]"
                f.append(("latticeIDs", ids))
                cnt = n1 if (k == 0) else n2
                if b["gridMult"] == "one":
                    f.append(("mult", 1.0))
                elif b["gridMult"] == "count" and cnt and fault != "mult-conflict":
                    f.append(("mult", cnt))
                if fault == "mult-conflict" and k == 0 and b["gridMult"] != "one":
                    f.append(("mult", cnt + 3))
            else:
                if two:
                    share = (n + 1) // 2 if k == 0 else n // 2
                    f.append(("mult", float(share) if b["multStyle"] == "float" else share))
                else:
                    f.append(("mult", multval))
            comps.append((nm, f))
        all_ids = "[1, 2]" if (use_grid and two) else ("[1]" if use_grid else None)
        if use_grid and b.get("latticeExtra"):
            sh, w = b["latticeExtra"], r4(clad_od * 0.1)
            dims = {"Square": [("widthOuter", _num(w)), ("widthInner", 0.0)],
                    "Rectangle": [("lengthOuter", _num(w)), ("lengthInner", 0.0), ("widthOuter", _num(r4(w / 2.0))), ("widthInner", 0.0)],
                    "SolidRectangle": [("lengthOuter", _num(w)), ("widthOuter", _num(r4(w / 2.0)))],
                    "Triangle": [("base", _num(w)), ("height", _num(r4(w / 2.0)))]}[sh]
            ef = [("shape", spell(sh)), ("material", "HT9"), ("Tinput", tin), ("Thot", min(thot, 470.0))] + dims + [("latticeIDs", all_ids)]
            if b["extraMult"] == "count":
                ef.append(("mult", n1 + n2))
            elif b["extraMult"] == "one":
                ef.append(("mult", 1.0))
            comps.append(("skid", ef))
        first = names[0]

        def mult_field():
            if use_grid:
                return None
            if two:
                return multval
            return ("%s.mult" % first) if b["linkMult"] else multval

        if b["gap"] == "bond":
            comps.append(("bond", [("shape", spell("Circle")), ("material", "Sodium"), ("Tinput", 450.0), ("Thot", 450.0), ("id", "%s.od" % first), ("od", "clad.id"),
                                   ("mult", mult_field()), ("latticeIDs", all_ids)]))
        elif b["gap"] == "void":
            comps.append(("gap1", [("shape", spell("Circle")), ("material", "Void"), ("Tinput", 450.0), ("Thot", 450.0), ("id", "%s.od" % first), ("od", "clad.id"),
                                   ("mult", mult_field()), ("latticeIDs", all_ids)]))
        elif b["gap"] == "liner":
            mid = r4((meat_od + clad_id) / 2.0)
            comps.append(("gap", [("shape", spell("Circle")), ("material", "Void"), ("Tinput", 450.0), ("Thot", 450.0), ("id", "%s.od" % first), ("od", "liner1.id"),
                                  ("mult", mult_field()), ("latticeIDs", all_ids)]))
            comps.append(("liner1", [("shape", spell("Circle")), ("material", "Zr"), ("Tinput", tin), ("Thot", min(thot, 470.0)), ("id", _num(mid)), ("od", "clad.id"),
                                     ("mult", mult_field()), ("latticeIDs", all_ids)]))
        comps.append(("clad", [("shape", spell("Circle")), ("material", "HT9"), ("Tinput", tin), ("Thot", min(thot, 470.0)), ("id", _num(clad_id)), ("od", _num(clad_od)),
                               ("mult", mult_field()), ("latticeIDs", all_ids)]))
        if b["wire"] and not use_grid:
            comps.append(("wire", [("shape", spell("Helix")), ("material", "HT9"), ("Tinput", tin), ("Thot", min(thot, 470.0)), ("axialPitch", 30.0), ("helixDiameter", _num(r4(clad_od + wire_od))),
                                   ("id", 0.0), ("od", _num(wire_od)), ("mult", "clad.mult" if b["linkMult"] else multval)]))
        comps.append(("coolant", [("shape", spell("DerivedShape")), ("material", "Sodium"), ("Tinput", 450.0), ("Thot", 450.0)]))
        duct_and_inter()
        if b["axialTarget"]:
            header.append("        axial expansion target component: %s" % ("clad" if b["axialTarget"] == "clad" else first))
    elif b["template"] == "solid":
        a = r4(op * b["fr"][0])
        sname = b["solidName"]
        if hexgeom:
            comps.append((sname, [("shape", spell("Hexagon")), ("material", "HT9"), ("Tinput", tin), ("Thot", thot), ("ip", 0.0), ("mult", 1.0), ("op", _num(a))]))
            inter = [("shape", spell("Hexagon")), ("material", "Sodium"), ("Tinput", 450.0), ("Thot", 450.0), ("ip", "%s.op" % sname), ("mult", 1.0), ("op", _num(P))]
        else:
            ay = r4(opy * b["fr"][0])
            comps.append((sname, [("shape", spell("Rectangle")), ("material", "HT9"), ("Tinput", tin), ("Thot", thot), ("lengthInner", 0.0), ("lengthOuter", _num(a)),
                                  ("widthInner", 0.0), ("widthOuter", _num(ay)), ("mult", 1.0)]))
            inter = [("shape", spell("Rectangle")), ("material", "Sodium"), ("Tinput", 450.0), ("Thot", 450.0), ("lengthInner", "%s.lengthOuter" % sname), ("lengthOuter", _num(P)),
                     ("widthInner", "%s.widthOuter" % sname), ("widthOuter", _num(Py)), ("mult", 1.0)]
        comps.append(("intercoolant", inter))
    else:  # plenum
        n = b["n"]
        clad_od, _w = pin_dims(n, False)
        clad_id = r4(clad_od * b["fr"][0])
        comps.append(("gap", [("shape", spell("Circle")), ("material", "Void"), ("Tinput", 450.0), ("Thot", 450.0), ("id", 0.0), ("od", "clad.id"), ("mult", "clad.mult")]))
        comps.append(("clad", [("shape", spell("Circle")), ("material", "HT9"), ("Tinput", tin), ("Thot", min(thot, 470.0)), ("id", _num(clad_id)), ("od", _num(clad_od)), ("mult", float(n))]))
        comps.append(("coolant", [("shape", spell("DerivedShape")), ("material", "Sodium"), ("Tinput", 450.0), ("Thot", 450.0)]))
        duct_and_inter()
    fault = b.get("fault")
    if fault == "bad-link":
        nm, f = comps[-1]
        comps[-1] = (nm, [(k_, ("nosuch.op" if isinstance(v_, str) and "." in v_ and k_ != "shape" else v_)) for k_, v_ in f])
    elif fault == "unknown-shape":
        nm, f = comps[0]
        comps[0] = (nm, [(k_, (v_[:-1] if k_ == "shape" else v_)) for k_, v_ in f])
    elif fault == "unknown-grid-name":
        header.append("        grid name: nosuchgrid")
    elif fault == "dup-component-name":
        comps.append(comps[-1])
    # rotate the component order (links may point forward)
    k = b["rotate"] % len(comps)
    comps = comps[k:] + comps[:k]
    L = list(header)
    for nm, f in comps:
        L += _comp(nm, f)
    return L


def block_mod_names(spec, b):
    """Modification names a component of this block accepts (by the documented table)."""
    if b["template"] != "pin":
        return []
    if b["iso"] is not None:
        # custom isotopics are applied first, modifications have the final word (documented in _constructMaterial); combined
        # only for UZr on a pure U-Zr vector, where the outcome is fixed by the documented meaning of the two fractions
        return MODS["UZr"] if (b["meat"] == "UZr" and spec["isotopics"][b["iso"]].get("uzr")) else []
    return MODS.get(b["meat"], [])


def meat_names(b):
    mname = b["meatName"]
    if not two_types(b):
        return [mname]
    names = [mname.rstrip("12") + "1", mname.rstrip("12") + "2"]
    if names[0] == names[1]:
        names = ["fuel1", "fuel2"]
    return names


def core_cells(spec):
    core = spec["core"]
    kind, size = core["kind"], core["size"]
    if kind == "cart":
        cells = mm.domain_cells(kind, tuple(size))
    else:
        cells = mm.domain_cells(kind, size) if size > 0 else [(0, 0)]
    nd = len(spec["designs"])
    out = {}
    for k, c in enumerate(cells):
        # (Hypothesis draws many zeros: the cell number is mixed in so that designs and holes vary across the map)
        f = core["fill"][k % len(core["fill"])]
        if (3 * f + k) % 5 == 4 and k != 0 and len(cells) > 2:
            continue  # hole
        out[c] = spec["designs"][(f + k) % nd]["specifier"]
    if core.get("trim") and core["route"] == "map":
        # an empty last row that the map text then leaves out (bottom row of a corners-up core, top row of a Cartesian one)
        if kind == "hexFullTips" and size > 0:
            out = {(i, j): v for (i, j), v in out.items() if i + j > -size}
        elif kind == "cart" and size[1] >= 2:
            out = {(i, j): v for (i, j), v in out.items() if j < size[1] - 1}
    if kind in ("hexFullFlat", "hexFullTips") and size > 0:
        out.setdefault((size, 0), spec["designs"][0]["specifier"])
        if kind == "hexFullFlat":
            out.setdefault((size - 1, 1), spec["designs"][0]["specifier"])
    return out


def _blank(d, k):
    """A modification entry that is not given: '' (user documentation) or YAML null, written null or ~ (both are named as "not
    applied" by AssemblyBlueprint._shouldMaterialModiferBeApplied); the spelling varies with the design's data."""
    return ("''", "null", "~")[(d["modMask"][k % len(d["modMask"])] + d["modKinds"] + k) % 3]


def grid_text(name, geom, symmetry, contents=None, lattice=None, pitch=None, indent=4):
    """YAML text of one grid blueprint (as a list of lines)."""
    p = " " * indent
    L = [p + "%s:" % name, p * 2 + "geom: %s" % geom, p * 2 + "symmetry: %s" % symmetry]
    if pitch is not None:
        L.append(p * 2 + "lattice pitch: {x: %r, y: %r}" % (pitch[0], pitch[1]))
    if lattice is not None:
        L.append(p * 2 + "lattice map: |%d" % indent)
        for line in lattice.rstrip("\n").split("\n"):
            L.append(p * 3 + line)
    if contents is not None:
        L.append(p * 2 + "grid contents:")
        for (i, j), spec in contents.items():
            L.append(p * 3 + "[%d,%d]: %s" % (i, j, yaml_scalar(spec)))
    return L


def yaml_scalar(x):
    if isinstance(x, int):
        return str(x)
    return "'%s'" % x if (x[0].isdigit() or x in ("Y", "N", "y", "n")) else x


def render(spec):
    L = []
    if spec["nucflags"] != "default":
        L.append("nuclide flags:")
        for nuc, burn in DEFAULT_NUCLIDE_FLAGS:
            L.append("    %s: {burn: %s, xs: true}" % (nuc, "true" if burn else "false"))
        if spec["nucflags"] == "explicit-O16":
            L.append("    O: {burn: false, xs: true, expandTo: [O16]}")
        else:
            L.append("    O: {burn: false, xs: true}")
    if spec["isotopics"]:
        L.append("custom isotopics:")
        for iso in spec["isotopics"]:
            L.append("    %s:" % iso["name"])
            L.append("        input format: %s" % iso["format"])
            if iso["density"] is not None:
                L.append("        density: %s" % _num(iso["density"]))
            for nuc, v in iso["items"]:
                L.append("        %s: %s" % (nuc, _num(v)))
    grids = {}
    L.append("blocks:")
    for b in spec["blocks"]:
        L += render_block(spec, b, grids)
    L.append("assemblies:")
    L.append("    heights: &heights [%s]" % ", ".join(repr(h) for h in spec["sharedHeights"]))
    for d in spec["designs"]:
        nb = len(d["blocks"])
        L.append("    %s:" % d["name"])
        if d["flags"]:
            L.append("        flags: %s" % d["flags"])
        L.append("        specifier: %s" % d["specifier"])
        L.append("        blocks: [%s]" % ", ".join("*block_%d" % k for k in d["blocks"]))
        if d["share"] and nb == len(spec["sharedHeights"]):
            L.append("        height: *heights")
        else:
            L.append("        height: [%s]" % ", ".join(repr(h) for h in d["heights"]))
        L.append("        axial mesh points: [%s]" % ", ".join(str(m) for m in d["mesh"]))
        if d["nozzle"]:
            L.append("        nozzleType: %s" % d["nozzle"])
        # material modifications
        by_block, by_comp = {}, {}
        for pos, bi in enumerate(d["blocks"]):
            b = spec["blocks"][bi]
            names = block_mod_names(spec, b)
            force = (d.get("force") or [None] * nb)[pos]
            if force == "none":
                continue
            for mi, mod in enumerate(names):
                forced = force == "mod" and mi == 0
                if not (d["modKinds"] >> mi) & 1 and not forced:
                    continue
                if (d["modMask"][pos] >> mi) & 1 or forced:
                    by_block.setdefault(mod, [None] * nb)[pos] = d["modVals"][mi][pos]
                if two_types(b) and (d["modMask"][pos] >> (mi + 2)) & 1:
                    # one component per modification, or (modKinds bit 2) both components: then one name sits on two components
                    # and one component carries two names
                    for ci in ((0, 1) if (d["modKinds"] >> 2) & 1 else (mi % 2,)):
                        by_comp.setdefault(meat_names(b)[ci], {}).setdefault(mod, [None] * nb)[pos] = d["modVals"][(mi + 2 + ci) % 4][pos]
        # a by-component entry is only valid if every block that gives it a value has that component
        if by_block or by_comp:
            L.append("        material modifications:")
            for mod, vals in by_block.items():
                L.append("            %s: [%s]" % (mod, ", ".join(_blank(d, k_) if v is None else repr(v) for k_, v in enumerate(vals))))
            if by_comp:
                L.append("            by component:")
                for cname, mods in by_comp.items():
                    L.append("                %s:" % cname)
                    for mod, vals in mods.items():
                        L.append("                    %s: [%s]" % (mod, ", ".join(_blank(d, k_ + 1) if v is None else repr(v) for k_, v in enumerate(vals))))
        L.append("        xs types: [%s]" % ", ".join(d["xs"]))
    L.append("systems:")
    L.append("    core:")
    L.append("        grid name: core")
    L.append("        origin: {x: %r, y: %r, z: %r}" % tuple(spec["origin"]))
    if spec["sfp"]:
        L.append("    Spent Fuel Pool:")
        L.append("        type: sfp")
        L.append("        grid name: sfp")
        L.append("        origin: {x: 5000.0, y: 5000.0, z: 6000.0}")
    L.append("grids:")
    contents = core_cells(spec)
    core = spec["core"]
    pitch = None
    if spec["latticePitch"] is not None:
        px = round(spec["pitch"] * spec["latticePitch"], 4)
        pitch = (px, round(px * spec["ry"], 4) if spec["geom"] == "cartesian" else 0.0)  # (hex grids use x only)
    elif spec["geom"] == "cartesian" and False:
        pitch = None
    if core["route"] == "map":
        size = tuple(core["size"]) if core["kind"] == "cart" else core["size"]
        rows, offs = mm.render_rows(core["kind"], size, contents, cut=0, strip_trailing=core["strip"], trim_rows=bool(core.get("trim")))
        text = mm.rows_to_text(rows, offs, pad=core["pad"])
        L += grid_text("core", spec["geom"], spec["symmetry"], lattice=text, pitch=pitch)
    else:
        if core["kind"] == "cart" and spec["symmetry"] == "full":
            nx, ny = core["size"]
            contents = {(i - nx // 2, j - ny // 2): v for (i, j), v in contents.items()}
        L += grid_text("core", spec["geom"], spec["symmetry"], contents=contents, pitch=pitch)
    if spec["sfp"]:
        L += ["    sfp:", "        geom: cartesian", "        symmetry: full", "        lattice pitch: {x: 50.0, y: 50.0}"]
    pin_geom = {"hex": "hex_corners_up", "hex_corners_up": "hex"}.get(spec["geom"], "cartesian")
    for gname, (R, cells, route) in grids.items():
        if pin_geom == "cartesian" and route == "map":
            lo = -(R // 2)
            shifted = {(i - lo, j - lo): v for (i, j), v in cells.items()}
            rows, offs = mm.render_rows("cart", (R, R), shifted, strip_trailing=False)
            L += grid_text(gname, pin_geom, "full", lattice=mm.rows_to_text(rows, offs))
        elif route == "map" and pin_geom == "hex_corners_up":
            rows, offs = mm.render_rows("hexFullTips", R, cells, strip_trailing=True, trim_rows=True)
            L += grid_text(gname, pin_geom, "full", lattice=mm.rows_to_text(rows, offs))
        else:
            intids = any(b.get("gridIntIds") and ("pins%d" % b["idx"]) == gname for b in spec["blocks"])
            L += grid_text(gname, pin_geom, "full", contents={k: (int(v) if intids else v) for k, v in cells.items()})
    return "\n".join(L) + "\n"


# ---------------------------------------------------------------------------------------------------------------
# inconsistent variants of a well-formed document

FAULT_KINDS = [
    "unknown-specifier", "height-length", "xs-length", "mesh-length", "mod-length", "pins-exceed-duct", "clad-inside-out",
    "duplicate-grid-location", "duplicate-attribute", "mult-conflict", "by-component-unknown", "invalid-mod-key", "bad-link",
    "unknown-shape", "unknown-flag", "isotopics-unknown", "fraction-sum", "density-with-number-densities", "unknown-grid-name",
    "dup-specifier", "dup-block-name", "dup-component-name", "dup-assembly-name", "dup-grid-name",
    "bundle-exceeds-inner-duct", "bycomp-length", "bycomp-length-same-name", "assembly-area",
]
_BLOCK_FAULTS = {"bundle-exceeds-inner-duct", "pins-exceed-duct", "clad-inside-out", "mult-conflict", "bad-link", "unknown-shape", "isotopics-unknown", "unknown-grid-name", "dup-component-name"}


def _used_blocks(spec):
    core = set(core_cells(spec).values())
    used = []
    for d in spec["designs"]:
        if d["specifier"] in core:
            for k in d["blocks"]:
                if k not in used:
                    used.append(k)
    return used


def _section(L, start_pred, indent):
    """(first, last+1) line range of the mapping entry whose header line satisfies start_pred at ``indent``."""
    a = next(i for i, line in enumerate(L) if start_pred(line))
    b = a + 1
    while b < len(L) and (L[b].startswith(" " * (indent + 1)) or not L[b].strip()):
        b += 1
    return a, b


def faulty(spec, kind, a):
    """Text of the document with one inconsistency of ``kind`` (None if the kind does not apply to this spec)."""
    import copy
    import re

    spec = copy.deepcopy(spec)
    used_designs = [d for d in spec["designs"] if d["specifier"] in set(core_cells(spec).values())]
    if kind in _BLOCK_FAULTS:
        cands = []
        for k in _used_blocks(spec):
            b = spec["blocks"][k]
            pin = b["template"] == "pin"
            if kind in ("pins-exceed-duct", "clad-inside-out") and pin:
                cands.append(k)
            elif kind == "bundle-exceeds-inner-duct" and pin and spec["geom"].startswith("hex"):
                cands.append(k)
            elif kind == "mult-conflict" and pin and b["grid"] and b["gridMult"] != "one":
                cands.append(k)
            elif kind == "isotopics-unknown" and pin and b["iso"] is None:
                cands.append(k)
            elif kind == "unknown-grid-name" and not (pin and b["grid"]):
                cands.append(k)
            elif kind in ("bad-link", "unknown-shape", "dup-component-name"):
                cands.append(k)
        if not cands:
            return None
        b = spec["blocks"][cands[a % len(cands)]]
        b["fault"] = kind
        if kind == "pins-exceed-duct":
            b["grid"] = False  # (the number of pins is then the stated mult, not the count of occupied lattice positions)
        if kind == "bundle-exceeds-inner-duct":
            # the well-formed base document is the same block with two ducts, a wire wrap and no pin lattice
            b["twoDucts"], b["wire"], b["grid"] = True, True, False
        if kind == "bad-link":
            b["rotate"] = 0
        return render(spec)
    if kind == "fraction-sum":
        isos = [i for i in spec["isotopics"] if i["format"] == "mass fractions"]
        if not isos:
            return None
        isos[a % len(isos)]["items"][0][1] = round(isos[a % len(isos)]["items"][0][1] * 0.5, 6)
        return render(spec)
    if kind == "density-with-number-densities":
        isos = [i for i in spec["isotopics"] if i["format"] == "number densities"]
        if not isos:
            return None
        isos[a % len(isos)]["density"] = 5.0
        return render(spec)
    if kind == "assembly-area":
        # one assembly design with another cross-sectional area (all its blocks 5 % wider or narrower): every position in
        # `assemblies:` and both directions; documented refusal: Blueprints._checkAssemblyAreaConsistency
        nd = len(spec["designs"])
        if nd < 2:
            return None
        t, scale = a % nd, (1.05 if (a // nd) % 2 else 0.95)
        d = spec["designs"][t]
        remap = {}
        for k in d["blocks"]:
            if k not in remap:
                nb_ = copy.deepcopy(spec["blocks"][k])
                nb_["idx"] = len(spec["blocks"])
                nb_["pitchScale"] = scale
                remap[k] = nb_["idx"]
                spec["blocks"].append(nb_)
        d["blocks"] = [remap[k] for k in d["blocks"]]
        return render(spec)
    if kind in ("mod-length", "bycomp-length", "bycomp-length-same-name"):
        return _faulty_mod_lists(spec, used_designs, kind, a)
    if kind == "dup-specifier":
        if len(used_designs) < 2:
            return None
        # two designs that are both in the core map get the same specifier (the map cannot tell them apart any more)
        used_designs[1]["specifier"] = used_designs[0]["specifier"]
        text = render(spec)
        return text
    if kind == "dup-assembly-name":
        if len(spec["designs"]) < 2:
            return None
        spec["designs"][1]["name"] = spec["designs"][0]["name"]
        return render(spec)
    L = render(spec).rstrip("\n").split("\n")
    gi = L.index("grids:")
    if kind in ("unknown-specifier", "duplicate-grid-location", "dup-grid-name"):
        ca, cb = _section(L[gi:], lambda line: line == "    core:", 4)
        ca, cb = ca + gi, cb + gi
        if kind == "dup-grid-name":
            L[cb:cb] = ["    core:", "        geom: %s" % spec["geom"], "        symmetry: %s" % spec["symmetry"], "        grid contents:", "            [0,0]: %s" % spec["designs"][0]["specifier"]]
            return "\n".join(L) + "\n"
        cells = [i for i in range(ca, cb) if re.match(r"^ {12}\[-?\d+,-?\d+\]: ", L[i])]
        if cells:
            i = cells[a % len(cells)]
            if kind == "unknown-specifier":
                L[i] = L[i].split(":")[0] + ": XX"
            else:
                L.insert(i, L[i])
            return "\n".join(L) + "\n"
        if kind == "duplicate-grid-location":
            return None
        maplines = [i for i in range(ca, cb) if L[i].startswith(" " * 12)]
        toks = [(i, m.start(), m.end()) for i in maplines for m in re.finditer(r"[A-Z]{2}", L[i])]
        i, s0, s1 = toks[a % len(toks)]
        L[i] = L[i][:s0] + "XX" + L[i][s1:]
        return "\n".join(L) + "\n"
    ai = L.index("assemblies:")
    si = L.index("systems:")
    designs = []
    for i in range(ai + 1, si):
        m = re.match(r"^ {4}(\S.*):$", L[i])
        if m and m.group(1) != "heights":
            designs.append(i)
    used_names = {d["name"] for d in used_designs}
    designs = [i for i in designs if L[i].strip()[:-1] in used_names] or designs
    di = designs[a % len(designs)]
    da, db = _section(L[:si], lambda line, t=L[di]: line == t, 4)
    dname = L[di].strip()[:-1]
    dspec = next(d for d in spec["designs"] if d["name"] == dname)
    nb = len(dspec["blocks"])

    def edit_list(prefix, extra):
        for i in range(da, db):
            if L[i].startswith(prefix):
                if "*heights" in L[i]:
                    L[i] = prefix + "[%s]" % ", ".join(repr(h) for h in spec["sharedHeights"] + [10.0])
                elif a % 2 and nb > 1:
                    L[i] = re.sub(r",[^,]*\]$", "]", L[i])
                else:
                    L[i] = L[i][:-1] + ", %s]" % extra
                return True
        return False

    if kind == "height-length":
        ok = edit_list("        height: ", "10.0")
    elif kind == "xs-length":
        ok = edit_list("        xs types: ", "A")
    elif kind == "mesh-length":
        ok = edit_list("        axial mesh points: ", "1")
    elif kind == "duplicate-attribute":
        i = next(i for i in range(da, db) if L[i].startswith("        specifier:"))
        L.insert(i, L[i])
        ok = True
    elif kind == "unknown-flag":
        fl = [i for i in range(da, db) if L[i].startswith("        flags:")]
        if fl:
            L[fl[0]] = L[fl[0]] + " bananas"
        else:
            L.insert(da + 1, "        flags: fuel bananas")
        ok = True
    elif kind in ("by-component-unknown", "invalid-mod-key"):
        if any(L[i].startswith("        material modifications:") for i in range(da, db)):
            return None
        vals = ", ".join("0.1" for _ in range(nb))
        if kind == "by-component-unknown":
            L[db:db] = ["        material modifications:", "            by component:", "                nosuch:", "                    U235_wt_frac: [%s]" % vals]
        else:
            L[db:db] = ["        material modifications:", "            bogus_frac: [%s]" % vals]
        ok = True
    elif kind == "dup-block-name":
        bi = L.index("blocks:")
        heads = [i for i in range(bi + 1, ai) if re.match(r"^ {4}\S.*: &block_\d+$", L[i])]
        if len(heads) < 2:
            return None
        name0 = L[heads[0]].split(": &")[0]
        L[heads[1]] = name0 + ": &" + L[heads[1]].split(": &")[1]
        ok = True
    else:
        raise KeyError(kind)
    return ("\n".join(L) + "\n") if ok else None


def _faulty_mod_lists(spec, used_designs, kind, a):
    """A `material modifications` section in which exactly one list has the wrong length (one entry too many, or one too few):
    ``mod-length``: a by-block list (any of them); ``bycomp-length``: a by-component list, any position among the lists of a
    component that carries two modification names (the same name is then left off the other component, see below);
    ``bycomp-length-same-name``: the first component's list too long while the second component has a correct list of the same
    modification name (the shape ARMI's length check loses on the unchanged tree)."""
    if kind != "mod-length":
        # the well-formed base document needs a block with two pin types: a block that accepts modifications is given them
        for d in used_designs:
            if not any(two_types(spec["blocks"][k]) and block_mod_names(spec, spec["blocks"][k]) for k in d["blocks"]):
                for k in d["blocks"]:
                    b = spec["blocks"][k]
                    if b["template"] == "pin" and b.get("n", 1) >= 2 and block_mod_names(spec, b) and (b["iso"] is None or spec["isotopics"][b["iso"]].get("uzr")):
                        b["twoTypes"] = True
                        break
    cands = []
    for d in used_designs:
        accept = [pos for pos, k in enumerate(d["blocks"]) if block_mod_names(spec, spec["blocks"][k])]
        two = [pos for pos in accept if two_types(spec["blocks"][d["blocks"][pos]])]
        if (kind == "mod-length" and accept) or (kind != "mod-length" and two):
            cands.append((d, accept, two))
    if not cands:
        return None
    d, accept, two = cands[a % len(cands)]
    nb = len(d["blocks"])
    delta = -1 if (a % 2 and nb > 1 and kind != "bycomp-length-same-name") else 1
    if kind == "bycomp-length":
        delta = -1 if (a % 8 in (1, 7) and nb > 1) else 1  # mostly too long: a too short list fails later anyway (IndexError)
    ref_pos = (two or accept)[0]
    ref_block = spec["blocks"][d["blocks"][ref_pos]]
    mods = block_mod_names(spec, ref_block)

    def values(mi, only_block=None):
        out = []
        for pos, k in enumerate(d["blocks"]):
            b = spec["blocks"][k]
            ok = mods[mi] in block_mod_names(spec, b) and (only_block is None or k == only_block)
            out.append(d["modVals"][mi][pos] if ok else None)
        return out

    def fmt(vals, wrong):
        vals = list(vals)
        if wrong:
            vals = vals + [0.1] if delta > 0 else vals[:-1]
        return "[%s]" % ", ".join("''" if v is None else repr(v) for v in vals)

    pick = (a // 2) % (len(mods) if kind == "mod-length" else 2 * len(mods))
    sec = ["        material modifications:"]
    for mi, mod in enumerate(mods):
        sec.append("            %s: %s" % (mod, fmt(values(mi), kind == "mod-length" and mi == pick)))
    if two:
        names = meat_names(ref_block)
        wrong_c, wrong_m = (0, 0) if kind == "bycomp-length-same-name" else divmod(pick, len(mods))
        if kind == "bycomp-length":
            # first / middle / last list of the first / second component
            wrong_c, wrong_m = a % 2, (0 if a % 8 < 6 else len(mods) - 1)
        sec.append("            by component:")
        for ci, cname in enumerate(names):
            lines = []
            for mi, mod in enumerate(mods):
                wrong = kind != "mod-length" and (ci, mi) == (wrong_c, wrong_m)
                if kind == "bycomp-length" and ci > wrong_c and mi == wrong_m and delta > 0:
                    continue  # (a later component with the same name would hide the wrong list from the unchanged check)
                lines.append("                    %s: %s" % (mod, fmt(values(mi, d["blocks"][ref_pos]), wrong)))
            if lines:
                sec += ["                %s:" % cname] + lines
    L = render(spec).rstrip("\n").split("\n")
    si = L.index("systems:")
    da, db = _section(L[:si], lambda line: line == "    %s:" % d["name"], 4)
    keep, skipping = [], False
    for line in L[da:db]:
        if line.startswith("        material modifications:"):
            skipping = True
            continue
        if skipping and line.startswith("            "):
            continue
        skipping = False
        if line.startswith("        xs types:"):
            keep += sec
        keep.append(line)
    return "\n".join(L[:da] + keep + L[db:]) + "\n"
