"""Runner shared by all checks.

A property module ``vp.props.cNN`` exposes::

    PROPERTY = "C07"
    LEVEL = "exploration"            # evidence level
    ASSUMPTIONS = [...]
    PARTS = [Part(...), ...]

Each Part generates *cases* (plain JSON data) from a Hypothesis strategy or from a complete
enumeration, and judges each with ``execute(case) -> Out``.
"""
import argparse
import hashlib
import importlib
import json
import os
import sys
import time
import traceback

from vp import case as vcase
from vp import env

HERE = env.VERIF_ROOT
MAX_SIGS = 8


class Out:
    """Result of executing one case."""

    __slots__ = ("violations", "labels", "nontrivial", "evals", "nontrivial_count", "rejected")

    def __init__(self):
        self.violations = []  # list of (signature, message)
        self.labels = []
        self.nontrivial = False
        self.evals = 1  # primitive evaluations inside this case (batched enumerations)
        self.nontrivial_count = None  # for batched cases: distinct non-trivial elements
        self.rejected = False

    def fail(self, signature, message):
        self.violations.append((signature, str(message)[:600]))

    def label(self, *names):
        self.labels.extend(names)

    def check(self, cond, signature, message):
        if not cond:
            self.fail(signature, message() if callable(message) else message)
        return cond


class Part:
    def __init__(
        self,
        name,
        execute,
        strategy=None,
        enumerate=None,
        budget=None,
        procs=None,
        rule="",
        exhaustive=False,
        setup=None,
        bound=None,
    ):
        self.name = name
        self.execute = execute
        self.strategy = strategy  # callable(tier) -> hypothesis strategy
        self.enumerate = enumerate  # callable(tier) -> list of cases (complete enumeration)
        self.budget = budget or {"quick": 200, "thorough": 5000}
        self.procs = procs or {"quick": 4, "thorough": 16}
        self.rule = rule
        self.exhaustive = exhaustive
        self.setup = setup  # callable() run once per worker process
        self.bound = bound  # callable(tier) -> str describing the explored bound


def derive_seed(seed, prop, part, shard):
    h = hashlib.sha1(("%s:%s:%s:%s" % (seed, prop, part, shard)).encode()).hexdigest()
    return int(h[:12], 16)


def _classify_exception(exc):
    """('armi'|'harness', signature-ish location) from the innermost armi/verif frame."""
    tb = traceback.extract_tb(exc.__traceback__)
    root = env.armi_root() + os.sep
    for fr in reversed(tb):
        if not os.path.isabs(fr.filename):
            continue  # e.g. h5py's relative .pyx frame names: neither armi nor harness code
        fn = os.path.abspath(fr.filename)
        if fn.startswith(root):
            rel = fn[len(root) :]
            return "armi", "%s:%s" % (rel, fr.name)
        if fn.startswith(HERE + os.sep):
            return "harness", "%s:%s:%d" % (fn[len(HERE) + 1 :], fr.name, fr.lineno)
    return "harness", "unknown"


def run_case(part, case):
    """Execute one case; uncaught exceptions from armi frames become violations."""
    try:
        out = part.execute(case)
        if out is None:
            out = Out()
        return out, None
    except Exception as exc:  # noqa: BLE001
        kind, where = _classify_exception(exc)
        text = "".join(traceback.format_exception(type(exc), exc, exc.__traceback__))[-1500:]
        if kind == "armi":
            out = Out()
            out.fail("uncaught/%s/%s" % (type(exc).__name__, where), text)
            return out, None
        return None, text


# ----------------------------------------------------------------------------------------------
# worker side


def _load(prop):
    mod = importlib.import_module("vp.props.%s" % prop.lower())
    return mod


def _get_part(mod, name):
    for p in mod.PARTS:
        if p.name == name:
            return p
    raise KeyError(name)


def _crash_dir(prop):
    # one directory per run (two runs of the same check may be going on side by side)
    d = os.path.join(HERE, ".scratch", "current_cases", "%s_%s" % (prop, os.environ.get("VP_RUN_ID", "0")))
    os.makedirs(d, exist_ok=True)
    return d


def _note_current(prop, partname, shard, case):
    """Remember the case a shard is about to execute, so that a worker killed by a native crash (heap corruption, abort in
    a C extension) can be traced back to its input by the parent."""
    try:
        path = os.path.join(_crash_dir(prop), "%s.%d.json" % (partname, shard))
        with open(path + ".tmp", "w") as f:
            json.dump({"part": partname, "case": case}, f, default=str)
        os.replace(path + ".tmp", path)
    except Exception:  # noqa: BLE001  (bookkeeping only)
        pass


def _selftest_abort(case, where=None):
    """Runner self-test only: simulate a native crash (VP_SELFTEST_ABORT=part:shard:count or VP_SELFTEST_ABORT_DIGEST=prefix)."""
    if where is not None and os.environ.get("VP_SELFTEST_ABORT") == where:
        os.abort()
    d = os.environ.get("VP_SELFTEST_ABORT_DIGEST")
    if d and vcase.digest(case).startswith(d):
        os.abort()


def _crashes_alone(prop, partname, case):
    """Run one case in a fresh single worker; True if that worker process dies."""
    from concurrent.futures.process import BrokenProcessPool

    try:
        with _pool(1) as ex:
            ex.submit(replay_worker, (prop, [{"part": partname, "case": case}], "run")).result()
        return False
    except BrokenProcessPool:
        return True


def shard_worker(args):
    prop, partname, tier, seed, shard, nshards, n_cases, ceiling = args
    t0 = time.time()
    res = {
        "part": partname,
        "shard": shard,
        "evaluations": 0,
        "cases": 0,
        "nontrivial": set(),
        "nontrivial_extra": 0,
        "labels": {},
        "samples": [],
        "violations": [],
        "harness_error": None,
        "cut": False,
        "rejected": 0,
    }
    try:
        env.configure()
        mod = _load(prop)
        part = _get_part(mod, partname)
        if part.setup:
            part.setup()

        def handle(case):
            if res["harness_error"] is not None:
                return
            if time.time() - t0 > ceiling:
                res["cut"] = True
                return
            _note_current(prop, partname, shard, case)
            _selftest_abort(case, "%s:%d:%d" % (partname, shard, res["cases"]))
            out, err = run_case(part, case)
            if err is not None:
                res["harness_error"] = {"case": case, "trace": err}
                return
            res["cases"] += 1
            res["evaluations"] += out.evals
            if out.rejected:
                res["rejected"] += 1
            for lab in out.labels:
                res["labels"][lab] = res["labels"].get(lab, 0) + 1
            if out.nontrivial_count is not None:
                res["nontrivial_extra"] += out.nontrivial_count
                if out.nontrivial_count and len(res["samples"]) < 2:
                    res["samples"].append(case)
            elif out.nontrivial:
                d = vcase.digest(case)
                if d not in res["nontrivial"]:
                    res["nontrivial"].add(d)
                    if len(res["samples"]) < 2 and vcase.size(case) < 6000:
                        res["samples"].append(case)
            for sig, msg in out.violations:
                res["violations"].append({"signature": sig, "message": msg, "case": case, "shard": shard})

        if part.enumerate is not None:
            allcases = part.enumerate(tier)
            for i, c in enumerate(allcases):
                if i % nshards == shard:
                    handle(c)
        else:
            import hypothesis
            from hypothesis import HealthCheck, Phase, given, settings

            strat = part.strategy(tier)
            hc = [h for h in HealthCheck if h.name != "filter_too_much"]

            @hypothesis.seed(derive_seed(seed, prop, partname, shard))
            @settings(
                max_examples=n_cases,
                database=None,
                deadline=None,
                derandomize=False,
                phases=[Phase.generate],
                suppress_health_check=hc,
                report_multiple_bugs=False,
            )
            @given(strat)
            def drive(c):
                handle(c)

            drive()
    except Exception as exc:  # noqa: BLE001
        res["harness_error"] = {
            "case": None,
            "trace": "".join(traceback.format_exception(type(exc), exc, exc.__traceback__))[-3000:],
        }
    finally:
        env.cleanup_scratch()
    res["nontrivial"] = sorted(res["nontrivial"])
    res["wall_s"] = time.time() - t0
    return res


def shrink_worker(args):
    """Re-run one shard with the same seed, failing on ``signature`` so that Hypothesis shrinks inside
    the generator's domain.  Returns the smallest failing case seen."""
    prop, partname, tier, seed, shard, nshards, n_cases, signature, budget_s = args
    t0 = time.time()
    best = {}
    try:
        env.configure()
        mod = _load(prop)
        part = _get_part(mod, partname)
        if part.setup:
            part.setup()
        import hypothesis
        from hypothesis import HealthCheck, Phase, given, settings

        class Found(Exception):
            pass

        @hypothesis.seed(derive_seed(seed, prop, partname, shard))
        @settings(
            max_examples=n_cases,
            database=None,
            deadline=None,
            derandomize=False,
            phases=[Phase.generate, Phase.shrink],
            suppress_health_check=list(HealthCheck),
            report_multiple_bugs=False,
        )
        @given(part.strategy(tier))
        def drive(c):
            if time.time() - t0 > budget_s:
                return
            out, err = run_case(part, c)
            if out is None:
                return
            for s_, m_ in out.violations:
                if s_ == signature:
                    if not best or vcase.size(c) <= vcase.size(best["case"]):
                        best["case"] = c
                        best["message"] = m_
                    raise Found()

        try:
            drive()
        except Found:
            pass
        except Exception:  # noqa: BLE001  (Flaky etc.: keep what we have)
            pass
    except Exception:  # noqa: BLE001
        pass
    finally:
        env.cleanup_scratch()
    return best


def replay_worker(args):
    """Execute explicit cases (replay tier, known-finding confirmation, shrinking)."""
    prop, jobs, mode = args
    out = []
    try:
        env.configure()
        mod = _load(prop)
        setups = set()
        for job in jobs:
            part = _get_part(mod, job["part"])
            if part.setup and part.name not in setups:
                part.setup()
                setups.add(part.name)
            if True:
                _selftest_abort(job["case"])
                o, err = run_case(part, job["case"])
                out.append(
                    {
                        "violations": [] if o is None else [list(v) for v in o.violations],
                        "harness_error": err,
                    }
                )
    except Exception as exc:  # noqa: BLE001
        return {"error": "".join(traceback.format_exception(type(exc), exc, exc.__traceback__))[-3000:]}
    finally:
        env.cleanup_scratch()
    return {"results": out}


# ----------------------------------------------------------------------------------------------
# parent side


def _pool(n):
    import multiprocessing as mp
    from concurrent.futures import ProcessPoolExecutor

    return ProcessPoolExecutor(max_workers=n, mp_context=mp.get_context("spawn"))


def load_known(prop):
    path = os.path.join(HERE, "KNOWN_FINDINGS.json")
    if not os.path.exists(path):
        return []
    with open(path) as f:
        data = json.load(f)
    return [e for e in data.get("findings", []) if e.get("property") == prop]


def list_replays(prop):
    d = os.path.join(HERE, "replays", prop)
    if not os.path.isdir(d):
        return []
    return [os.path.join(d, f) for f in sorted(os.listdir(d)) if f.endswith(".json")]


def _relpath(p):
    return os.path.relpath(p, HERE)


def _safe_name(sig):
    return "".join(ch if ch.isalnum() or ch in "-_." else "_" for ch in sig)[:120]


def main(argv=None):
    """Run a check; whatever happens, sweep the scratch directories of this run's worker processes afterwards."""
    import glob
    import shutil

    os.environ["VP_RUN_ID"] = str(os.getpid())
    try:
        return _main(argv)
    finally:
        for d in glob.glob(os.path.join(HERE, ".scratch", "p%d_*" % os.getpid())) + glob.glob(
            os.path.join(HERE, ".scratch", "current_cases", "*_%d" % os.getpid())
        ):
            shutil.rmtree(d, ignore_errors=True)


def _main(argv=None):
    ap = argparse.ArgumentParser()
    ap.add_argument("property")
    ap.add_argument("--tier", default=os.environ.get("VERIF_TIER", "quick"), choices=["quick", "thorough"])
    ap.add_argument("--seed", type=int, default=int(os.environ.get("VERIF_SEED", "1") or 1))
    ap.add_argument("--replay", default=None)
    ap.add_argument("--parts", default=None, help="comma-separated subset of parts (debugging)")
    ap.add_argument("--scale", type=float, default=float(os.environ.get("VP_SCALE", "1")))
    ap.add_argument("--no-evidence", action="store_true")
    a = ap.parse_args(argv)
    prop = a.property.upper()
    t0 = time.time()
    env.ensure_path()
    try:
        mod = _load(prop)
    except Exception:  # noqa: BLE001
        traceback.print_exc()
        print("HARNESS-ERROR property=%s cannot import check module" % prop)
        return 2

    known = load_known(prop)
    known_sigs = {e["signature"]: e for e in known if e.get("status") == "known"}

    # ---- single replay --------------------------------------------------------------------
    if a.replay:
        with open(a.replay) as f:
            rep = json.load(f)
        if _crashes_alone(prop, rep["part"], rep["case"]):
            print("  native-crash/%s: the worker process executing this case died" % rep["part"])
            print("VIOLATION property=%s replay=%s" % (prop, _relpath(os.path.abspath(a.replay))))
            return 1
        with _pool(1) as ex:
            r = ex.submit(replay_worker, (prop, [{"part": rep["part"], "case": rep["case"]}], "run")).result()
        if "error" in r or r["results"][0]["harness_error"]:
            print(r.get("error") or r["results"][0]["harness_error"])
            print("HARNESS-ERROR property=%s replay failed to execute" % prop)
            return 2
        v = r["results"][0]["violations"]
        for sig, msg in v:
            print("  %s: %s" % (sig, msg))
        if v:
            print("VIOLATION property=%s replay=%s" % (prop, a.replay))
            return 1
        print("replay holds: %s" % a.replay)
        return 0

    parts = mod.PARTS
    if a.parts:
        want = set(a.parts.split(","))
        parts = [p for p in parts if p.name in want]

    violations = {}  # sig -> list of dict(case, message, part, replay?)
    harness_errors = []
    known_seen = {}

    # ---- replay tier ----------------------------------------------------------------------
    replays = list_replays(prop)
    jobs = []
    for path in replays:
        with open(path) as f:
            rep = json.load(f)
        jobs.append({"part": rep["part"], "case": rep["case"], "path": path})
    known_jobs = [
        {"part": e["part"], "case": e["minimal_case"], "known": e}
        for e in known
        if e.get("status") == "known" and e.get("minimal_case") is not None
    ]
    partnames = {p.name for p in mod.PARTS}
    alljobs = [j for j in jobs + known_jobs if j["part"] in partnames]
    replay_count = 0
    if alljobs:
        from concurrent.futures.process import BrokenProcessPool

        try:
            with _pool(1) as ex:
                r = ex.submit(
                    replay_worker, (prop, [{"part": j["part"], "case": j["case"]} for j in alljobs], "run")
                ).result()
        except BrokenProcessPool:
            # a saved case kills its worker: run them one by one, the ones that die are violations of their own
            r = {"results": []}
            for j in alljobs:
                if _crashes_alone(prop, j["part"], j["case"]):
                    r["results"].append({"violations": [["native-crash/" + j["part"], "the worker process executing this case died"]], "harness_error": None})
                else:
                    with _pool(1) as ex:
                        one = ex.submit(replay_worker, (prop, [{"part": j["part"], "case": j["case"]}], "run")).result()
                    r["results"].append(one["results"][0] if "results" in one else {"violations": [], "harness_error": one.get("error")})
        if "error" in r:
            harness_errors.append(r["error"])
        else:
            for j, res in zip(alljobs, r["results"]):
                replay_count += 1
                if res["harness_error"]:
                    harness_errors.append(res["harness_error"])
                    continue
                sigs = [s for s, _ in res["violations"]]
                if "known" in j:
                    e = j["known"]
                    if e["signature"] in sigs:
                        known_seen[e["signature"]] = True
                    else:
                        known_seen.setdefault(e["signature"], False)
                    sigs = [s for s in sigs if s != e["signature"]]
                for sig, msg in res["violations"]:
                    if sig in known_sigs:
                        continue
                    violations.setdefault(sig, []).append(
                        {"case": j["case"], "message": msg, "part": j["part"], "replay": j.get("path")}
                    )

    # ---- generated / enumerated search ----------------------------------------------------
    tier = a.tier
    ceiling = float(os.environ.get("VP_WALL_CEILING", "600" if tier == "quick" else "7200"))
    tasks = []
    for p in parts:
        n = max(1, int(p.budget[tier] * a.scale))
        nsh = max(1, min(p.procs[tier], 16))
        if p.enumerate is None:
            nsh = min(nsh, max(1, n // 20))
        per = -(-n // nsh)
        for s in range(nsh):
            tasks.append((prop, p.name, tier, a.seed, s, nsh, per, ceiling))
    results = []
    crashed = []
    if tasks:
        from concurrent.futures.process import BrokenProcessPool

        cdir = _crash_dir(prop)
        for fn in os.listdir(cdir):
            os.remove(os.path.join(cdir, fn))
        broken = []
        with _pool(min(16, len(tasks))) as ex:
            futs = [(t, ex.submit(shard_worker, t)) for t in tasks]
            for t, fut in futs:
                try:
                    results.append(fut.result())
                except BrokenProcessPool:
                    broken.append(t)
        if broken:
            # a worker process died (native crash in code under test): find the case(s) that kill a fresh worker
            for t in broken:
                path = os.path.join(cdir, "%s.%d.json" % (t[1], t[4]))
                if not os.path.exists(path):
                    continue
                with open(path) as f:
                    cur = json.load(f)
                if _crashes_alone(prop, cur["part"], cur["case"]):
                    crashed.append(cur)
            if not crashed:
                harness_errors.append("a worker process died during the search and no recorded case reproduces it alone "
                                      "(shards lost: %s)" % ", ".join("%s#%d" % (t[1], t[4]) for t in broken))
            for cur in crashed:
                violations.setdefault("native-crash/" + cur["part"], []).append(
                    {"case": cur["case"], "message": "the worker process executing this case died (abort / memory corruption in "
                     "native code reached from the code under test); reproduced in a fresh process", "part": cur["part"], "shard": None}
                )

    per_part = {}
    for r in results:
        pp = per_part.setdefault(
            r["part"],
            {
                "evaluations": 0,
                "cases": 0,
                "nontrivial": set(),
                "nontrivial_extra": 0,
                "labels": {},
                "samples": [],
                "cut": False,
                "rejected": 0,
                "wall_s": 0.0,
            },
        )
        pp["evaluations"] += r["evaluations"]
        pp["cases"] += r["cases"]
        pp["nontrivial"].update(r["nontrivial"])
        pp["nontrivial_extra"] += r["nontrivial_extra"]
        pp["rejected"] += r["rejected"]
        pp["cut"] = pp["cut"] or r["cut"]
        pp["wall_s"] = max(pp["wall_s"], r["wall_s"])
        for k, v in r["labels"].items():
            pp["labels"][k] = pp["labels"].get(k, 0) + v
        if len(pp["samples"]) < 2:
            pp["samples"].extend(r["samples"][: 2 - len(pp["samples"])])
        if r["harness_error"]:
            harness_errors.append(r["harness_error"]["trace"])
            if r["harness_error"]["case"] is not None:
                os.makedirs(os.path.join(HERE, ".scratch"), exist_ok=True)
                with open(os.path.join(HERE, ".scratch", "harness_error_%s.json" % prop), "w") as f:
                    json.dump({"part": r["part"], "case": r["harness_error"]["case"]}, f)
        for v in r["violations"]:
            sig = v["signature"]
            if sig in known_sigs:
                known_seen[sig] = True
                known_sigs[sig]["_hits"] = known_sigs[sig].get("_hits", 0) + 1
                continue
            violations.setdefault(sig, []).append({"case": v["case"], "message": v["message"], "part": r["part"], "shard": v.get("shard")})

    # ---- shrink new violations and write replay files ----------------------------------------
    lines = []
    new_sigs = sorted(violations)
    shrunk = {}
    to_shrink = []
    for sig in new_sigs[:MAX_SIGS]:
        items = violations[sig]
        existing = [it for it in items if it.get("replay")]
        if existing:
            shrunk[sig] = (existing[0]["replay"], existing[0]["message"])
            continue
        smallest = min(items, key=lambda it: vcase.size(it["case"]))
        to_shrink.append((sig, smallest))
    if to_shrink:
        partmap = {p.name: p for p in mod.PARTS}
        taskmap = {(t[1], t[4]): t for t in tasks}
        outs = []
        shrink_budget = float(os.environ.get("VP_SHRINK_S", "120" if tier == "quick" else "300"))
        futures = []
        with _pool(min(MAX_SIGS, len(to_shrink))) as ex:
            for sig, it in to_shrink:
                p = partmap[it["part"]]
                t = taskmap.get((it["part"], it.get("shard")))
                if p.enumerate is None and t is not None and os.environ.get("VP_NO_SHRINK") != "1":
                    futures.append(ex.submit(shrink_worker, (prop, t[1], t[2], t[3], t[4], t[5], t[6], sig, shrink_budget)))
                else:
                    futures.append(None)
            for (sig, it), fut in zip(to_shrink, futures):
                best = {}
                if fut is not None:
                    try:
                        best = fut.result(timeout=shrink_budget * 4 + 600)
                    except Exception:  # noqa: BLE001
                        best = {}
                if not best or vcase.size(best["case"]) > vcase.size(it["case"]):
                    best = {"case": it["case"], "message": it["message"]}
                outs.append(best)
        for (sig, it), o in zip(to_shrink, outs):
            d = os.path.join(HERE, "replays", prop)
            if env.armi_root() != "/repo" or a.no_evidence:
                d = os.path.join(HERE, ".scratch", "mutant_replays", prop)
            os.makedirs(d, exist_ok=True)
            path = os.path.join(d, "new_%s.json" % _safe_name(sig))
            with open(path, "w") as f:
                json.dump(
                    {
                        "property": prop,
                        "part": it["part"],
                        "signature": sig,
                        "message": o.get("message", it["message"]),
                        "case": o["case"],
                    },
                    f,
                    indent=1,
                    sort_keys=True,
                )
            shrunk[sig] = (path, o.get("message", it["message"]))
    for sig in new_sigs:
        if sig in shrunk:
            path, msg = shrunk[sig]
            print("  violation %s (%d cases): %s" % (sig, len(violations[sig]), msg[:400]))
            lines.append("VIOLATION property=%s replay=%s" % (prop, _relpath(path)))
        else:
            print("  violation %s (%d cases, not shrunk)" % (sig, len(violations[sig])))

    for sig, e in known_sigs.items():
        state = "reproduced" if known_seen.get(sig) else "NOT reproduced by its pinned case on this tree"
        print("KNOWN-FINDING: property=%s %s [%s; %s; hits in search: %d]" % (prop, e["what_fails"], sig, state, e.get("_hits", 0)))

    # ---- evidence ------------------------------------------------------------------------------
    wall = time.time() - t0
    total_eval = sum(pp["evaluations"] for pp in per_part.values()) + replay_count
    total_nt = sum(len(pp["nontrivial"]) + pp["nontrivial_extra"] for pp in per_part.values())
    samples = []
    for name, pp in per_part.items():
        for s in pp["samples"][:2]:
            samples.append({"part": name, "case": s})
    rules = []
    partinfo = {}
    for p in parts:
        pp = per_part.get(p.name)
        if not pp:
            continue
        rules.append("[%s] %s" % (p.name, p.rule))
        partinfo[p.name] = {
            "cases": pp["cases"],
            "evaluations": pp["evaluations"],
            "distinct_nontrivial": len(pp["nontrivial"]) + pp["nontrivial_extra"],
            "labels": dict(sorted(pp["labels"].items())),
            "rejected_by_code_under_test": pp["rejected"],
            "exhaustive": bool(p.exhaustive),
            "bound": p.bound(tier) if p.bound else None,
            "kind": "enumeration" if p.enumerate is not None else "hypothesis",
            "wall_s": round(pp["wall_s"], 2),
            "stopped_by_wall_ceiling": pp["cut"],
        }
    ev = {
        "property_id": prop,
        "tier": tier,
        "seed": a.seed,
        "level": getattr(mod, "LEVEL", "exploration"),
        "coverage": {
            "evaluations": total_eval,
            "distinct_nontrivial": total_nt,
            "rule": " ".join(rules),
            "samples": samples[:8],
            "exhaustive": bool(parts) and all(p.exhaustive for p in parts),
            "parts": partinfo,
            "replayed_regression_cases": replay_count,
            "known_findings": [
                {"signature": s, "reproduced": bool(known_seen.get(s)), "hits": e.get("_hits", 0)}
                for s, e in known_sigs.items()
            ],
            "new_violation_signatures": new_sigs,
        },
        "assumptions": list(getattr(mod, "ASSUMPTIONS", [])),
        "wall_s": round(wall, 2),
        "violations": len(new_sigs),
    }
    if not a.no_evidence and not a.parts:
        os.makedirs(os.path.join(HERE, "evidence"), exist_ok=True)
        with open(os.path.join(HERE, "evidence", "%s.json" % prop), "w") as f:
            json.dump(ev, f, indent=1, sort_keys=True, default=str)

    for name, info in partinfo.items():
        print(
            "  part %-22s cases=%-7d evals=%-8d nontrivial=%-7d rejected=%-5d %.1fs%s"
            % (
                name,
                info["cases"],
                info["evaluations"],
                info["distinct_nontrivial"],
                info["rejected_by_code_under_test"],
                info["wall_s"],
                "  [wall ceiling hit]" if info["stopped_by_wall_ceiling"] else "",
            )
        )
    if harness_errors:
        print(harness_errors[0])
        print("HARNESS-ERROR property=%s (%d); exit 2, no verdict" % (prop, len(harness_errors)))
        for ln in lines:
            print(ln)
        return 1 if lines else 2
    lines = list(dict.fromkeys(lines))
    for ln in lines:
        print(ln)
    if lines:
        return 1
    print("OK property=%s tier=%s seed=%d evaluations=%d nontrivial=%d wall=%.1fs" % (prop, tier, a.seed, total_eval, total_nt, wall))
    return 0
