"""observe(obj): a canonical, comparable record of everything a user can see in a model object.

Used as the equality notion of C04/C06/C13/C14/C16: two objects are observationally equal iff their
records are equal.  Records contain only plain Python data (tuples, lists, dicts, numbers, strings).
"""
import math

import numpy as np


def norm_value(v):
    """Normalise a parameter value to plain comparable data (numbers keep their exact value)."""
    if v is None:
        return None
    if isinstance(v, (bool, np.bool_)):
        return bool(v)
    if isinstance(v, (int, np.integer)):
        return int(v)
    if isinstance(v, (float, np.floating)):
        f = float(v)
        return "nan" if math.isnan(f) else f
    if isinstance(v, (str, bytes)):
        return v if isinstance(v, str) else v.decode()
    if isinstance(v, np.ndarray):
        if v.dtype == object:
            return ("arr", [norm_value(x) for x in v.tolist()])
        return ("arr", list(v.shape), _norm_list(v.tolist()))
    if isinstance(v, (list, tuple)):
        return ("seq", [norm_value(x) for x in v])
    if isinstance(v, dict):
        return ("dict", sorted((str(k), norm_value(x)) for k, x in v.items()))
    if isinstance(v, (set, frozenset)):
        return ("set", sorted(str(x) for x in v))
    try:
        # Flags and other int-like enumerations
        return ("flags", str(v))
    except Exception:  # noqa: BLE001
        return ("obj", type(v).__name__)


def _norm_list(x):
    if isinstance(x, list):
        return [_norm_list(y) for y in x]
    if isinstance(x, float):
        return "nan" if math.isnan(x) else x
    return x


def loose_value(v):
    """Normalisation that forgets the container kind (list vs array vs tuple) and int/float kind."""
    if v is None:
        return None
    if isinstance(v, (bool, np.bool_)):
        return bool(v)
    if isinstance(v, (int, np.integer, float, np.floating)):
        f = float(v)
        return "nan" if math.isnan(f) else f
    if isinstance(v, (str, bytes)):
        return v if isinstance(v, str) else v.decode()
    if isinstance(v, np.ndarray):
        return [loose_value(x) for x in v.tolist()] if v.ndim else loose_value(v.item())
    if isinstance(v, (list, tuple)):
        return [loose_value(x) for x in v]
    if isinstance(v, dict):
        return sorted((str(k), loose_value(x)) for k, x in v.items())
    return str(v)


def locator_record(obj):
    from armi.reactor import grids

    loc = getattr(obj, "spatialLocator", None)
    if loc is None:
        return None
    kind = type(loc).__name__
    grid = loc.grid
    owner = None
    if grid is not None and grid.armiObject is not None:
        owner = grid.armiObject.name
    if isinstance(loc, grids.MultiIndexLocation):
        idx = [tuple(int(x) for x in l.indices) for l in loc]
        glob = [tuple(float(x) for x in l.getGlobalCoordinates()) for l in loc]
    elif isinstance(loc, grids.CoordinateLocation):
        idx = tuple(float(x) for x in loc.indices)
        glob = tuple(float(x) for x in loc.getGlobalCoordinates())
    else:
        idx = tuple(float(x) for x in loc.indices)
        try:
            glob = tuple(float(x) for x in loc.getGlobalCoordinates())
        except Exception as e:  # noqa: BLE001
            glob = "err:" + type(e).__name__
    nested = grid is not None and grid.armiObject is not None and grid.armiObject is getattr(obj, "parent", None)
    return (kind, idx, owner, glob, nested)


def grid_record(obj):
    g = getattr(obj, "spatialGrid", None)
    if g is None:
        return None
    red = g.reduce()
    return (type(g).__name__, loose_value(list(red)))


def params_record(obj, only_saved=False, skip=()):
    rec = {}
    for pd in obj.p.paramDefs:
        if pd.name in skip:
            continue
        if only_saved and not pd.saveToDB:
            continue
        name = pd.name
        try:
            val = obj.p[name]
        except Exception:  # noqa: BLE001  (parameters that need a parent to evaluate)
            continue
        if only_saved:
            rec[name] = loose_value(val)
        else:
            rec[name] = norm_value(val)
    return rec


def component_record(c):
    from armi.reactor.components import component as compmod

    dims = {}
    for d in c.DIMENSION_NAMES:
        raw = c.p[d]
        if isinstance(raw, compmod._DimensionLink):
            dims[d] = ("link", raw[0].name, raw[1], float(raw.resolveDimension(cold=True)))
        else:
            dims[d] = None if raw is None else float(raw)
    nd = {k: float(v) for k, v in sorted(c.getNumberDensities().items())}
    mat = c.material
    extra = {}
    for fn in ("getTD",):
        if hasattr(mat, fn):
            try:
                extra[fn] = float(getattr(mat, fn)())
            except Exception as e:  # noqa: BLE001
                extra[fn] = "err:" + type(e).__name__
    return {
        "material": type(c.material).__name__,
        "materialState": extra,
        "Tinput": float(c.inputTemperatureInC),
        "Thot": float(c.temperatureInC),
        "dims": dims,
        "ndens": nd,
    }


def observe(obj, params=True, only_saved=False, serial=True, derived=True, skip_params=()):
    """Recursive record of ``obj`` and everything beneath it."""
    from armi.reactor.components import Component

    rec = {
        "type": type(obj).__name__,
        "name": obj.name,
        "locator": locator_record(obj),
        "grid": grid_record(obj),
    }
    if serial and "serialNum" in obj.p:
        rec["serialNum"] = obj.p.serialNum
    if params:
        rec["params"] = params_record(obj, only_saved=only_saved, skip=skip_params)
    if isinstance(obj, Component):
        rec["component"] = component_record(obj)
        if derived:
            try:
                rec["area"] = float(obj.getArea())
            except Exception as e:  # noqa: BLE001
                rec["area"] = "err:" + type(e).__name__
    rec["children"] = [observe(c, params, only_saved, serial, derived, skip_params) for c in obj]
    return rec


def diff(a, b, path="", limit=8, rel=0.0, out=None):
    """List of human-readable differences between two records (numbers compared with ``rel``)."""
    if out is None:
        out = []
    if len(out) >= limit:
        return out
    if isinstance(a, dict) and isinstance(b, dict):
        for k in sorted(set(a) | set(b), key=str):
            if k not in a:
                out.append("%s/%s: missing on left (right=%r)" % (path, k, _short(b[k])))
            elif k not in b:
                out.append("%s/%s: missing on right (left=%r)" % (path, k, _short(a[k])))
            else:
                diff(a[k], b[k], "%s/%s" % (path, k), limit, rel, out)
            if len(out) >= limit:
                break
        return out
    if isinstance(a, (list, tuple)) and isinstance(b, (list, tuple)):
        if len(a) != len(b):
            out.append("%s: length %d vs %d (%r vs %r)" % (path, len(a), len(b), _short(a), _short(b)))
            return out
        for i, (x, y) in enumerate(zip(a, b)):
            diff(x, y, "%s[%d]" % (path, i), limit, rel, out)
            if len(out) >= limit:
                break
        return out
    if isinstance(a, float) and isinstance(b, float) and rel > 0:
        if abs(a - b) <= rel * max(abs(a), abs(b)):
            return out
    if a != b or type(a) is not type(b) and not (isinstance(a, (int, float)) and isinstance(b, (int, float))):
        out.append("%s: %r != %r" % (path, _short(a), _short(b)))
    return out


def _short(x):
    s = repr(x)
    return s if len(s) < 160 else s[:157] + "..."
