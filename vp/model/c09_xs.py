"""Reference encoders for the cross-section library formats (C09): ISOTXS/GAMISO, PMATRX, DLAYXS, COMPXS.

Each ``*_records(container)`` returns [(record name, [reference fields])] computed from the *container contents*
(metadata flags + arrays) following the record descriptions (CCCC-IV ISOTXS/DLAYXS, the MC2-3 PMATRX layout and the DIF3D
COMPXS layout as the armi modules document them).  Applied to a container read from a shipped fixture the result must
reproduce the fixture bytes, which anchors these transcriptions to files produced by MC2-3/DIF3D; applied to mutated or
generated containers it is the oracle for what the writer must produce and for what a reader must have recovered.
"""
import numpy as np

from vp.model.c09_formats import Dd, F, I, LD, LF, LI, LS, S

# ISOTXS scattering block identifiers -> container attribute
_SCAT_ATTR = {100: "elasticScatter", 101: "elasticScatter1stOrder", 200: "inelasticScatter", 300: "n2nScatter", 0: "totalScatter"}


def B(v):
    return {"t": "bool", "v": bool(v)}


def _dense(m):
    return None if m is None else (m.toarray() if hasattr(m, "toarray") else np.asarray(m))


def scatter_matrix(micros, nmd, n):
    """The matrix of scattering block ``n``: first block carrying each standard identifier, else higherOrderScatter[n]."""
    flags = [int(x) for x in nmd["scatFlag"]]
    ident = flags[n]
    if ident in _SCAT_ATTR and flags.index(ident) == n:
        return _dense(getattr(micros, _SCAT_ATTR[ident]))
    return _dense(micros.higherOrderScatter.get(n))


def set_scatter_matrix(micros, nmd, n, matrix):
    """Store ``matrix`` as scattering block ``n`` (inverse of ``scatter_matrix``)."""
    flags = [int(x) for x in nmd["scatFlag"]]
    ident = flags[n]
    if ident in _SCAT_ATTR and flags.index(ident) == n:
        setattr(micros, _SCAT_ATTR[ident], matrix)
    else:
        micros.higherOrderScatter[n] = matrix


def sub_block(m, ng, nsblok):
    x = (ng - 1) // nsblok + 1
    return (m - 1) * x + 1, min(ng, m * x)


def isotxs_records(lib, kind="isotxs"):
    gam = kind == "gamiso"
    md = lib.gamisoMetadata if gam else lib.isotxsMetadata
    ng, nblk, nsb = md["numGroups"], md["maxScatteringBlocks"], md["subblockingControl"]
    per_nuc = []
    for nuc in lib.nuclides:
        nmd = nuc.gamisoMetadata if gam else nuc.isotxsMetadata
        mic = nuc.gammaXS if gam else nuc.micros
        recs = []
        four = [S(nmd[k], 8) for k in ("nuclideId", "libName", "isoIdent")]
        four += [F(nmd[k]) for k in ("amass", "efiss", "ecapt", "temp", "sigPot", "adens")]
        four += [I(nmd[k]) for k in ("classif", "chiFlag", "fisFlag", "nalph", "np", "n2n", "nd", "nt", "ltot", "ltrn", "strpd")]
        four += [LI(nmd["scatFlag"]), LI(nmd["ords"])]
        four += [LI([nmd["jband"][j, n] for n in range(nblk) for j in range(ng)])]
        four += [LI([nmd["jj"][j, n] for n in range(nblk) for j in range(ng)])]
        recs.append(("4D-isotope-control", four))
        five = [LF(np.asarray(mic.transport).reshape(ng, -1)[:, : nmd["ltrn"]].flatten(order="F")),
                LF(np.asarray(mic.total).reshape(ng, -1)[:, : nmd["ltot"]].flatten(order="F")), LF(mic.nGamma)]
        if nmd["fisFlag"] > 0:
            five += [LF(mic.fission), LF(mic.neutronsPerFission)]
        if nmd["chiFlag"] == 1:
            five.append(LF(mic.chi))
        for x in ("nalph", "np", "n2n", "nd", "nt"):
            if nmd[x] > 0:
                five.append(LF(mic[x]))
        if nmd["strpd"] > 0:
            five.append(LF(np.asarray(mic.strpd).reshape(ng, -1).flatten(order="F")))
        recs.append(("5D-principal-xs", five))
        for n in range(nblk):
            lordn = int(nmd["ords"][n])
            if lordn <= 0:
                continue
            sc = scatter_matrix(mic, nmd, n)
            for m in range(1, nsb + 1):
                jl, ju = sub_block(m, ng, nsb)
                vals = []
                for _ in range(lordn):
                    for g in range(jl - 1, ju):
                        jup = g + int(nmd["jj"][g, n])
                        jdown = jup - int(nmd["jband"][g, n])
                        vals.extend(reversed(sc[g, jdown:jup].tolist()))
                recs.append(("7D-scattering-sub-block", [LF(vals)]))
        per_nuc.append(recs)
    loca = [sum(len(r) for r in per_nuc[:i]) for i in range(len(per_nuc))]
    out = [("file-id", [S(md["label"], 24), I(md["fileId"])]),
           ("1D-file-control", [I(ng), I(len(per_nuc)), I(md["maxUpScatterGroups"]), I(md["maxDownScatterGroups"]),
                                I(md["maxScatteringOrder"]), I(md["fileWideChiFlag"]), I(nblk), I(nsb)])]
    two = [S(md["libraryLabel"], 96), LS([str(x) for x in lib.nuclideLabels], 8)]
    if md["fileWideChiFlag"] == 1:
        two.append(LF(md["chi"]))
    if gam:
        two += [LF(md["gammaVelocity..NOT"]), LF(lib.gammaEnergyUpperBounds)]
    else:
        two += [LF(lib.neutronVelocity), LF(lib.neutronEnergyUpperBounds)]
    two += [F(md["minimumNeutronEnergy"]), LI(loca)]
    out.append(("2D-file-data", two))
    for recs in per_nuc:
        out.extend(recs)
    return out


# ----------------------------------------------------------------------------------------------------


def pmatrx_records(lib):
    md = lib.pmatrxMetadata
    nn, ngam = md["numNeutronGroups"], md["numGammaGroups"]
    nucs = lib.nuclides
    out = [("file-id", [I(md["numberCollapsingSpatialRegions"]), I(ngam), I(nn), B(md["hasInPlateData"]), I(len(nucs)),
                        B(md["hasDoseConversionFactor"])]
            + [I(md[k]) for k in ("maxScatteringOrder", "maxNumberOfCompositions", "maxMaterials", "maxNumberOfRegions",
                                  "maxNumberOfCollapsingRegions", "_dummy1", "_dummy2")]),
           ("group-structure", [LF(lib.neutronEnergyUpperBounds), F(md["minimumNeutronEnergy"]), LF(lib.gammaEnergyUpperBounds),
                                F(md["minimumGammaEnergy"])])]
    if md["hasDoseConversionFactor"]:
        out.append(("dose-conversion-factors", [LF(lib.neutronDoseConversionFactors), LF(lib.gammaDoseConversionFactors)]))
    out.append(("isotope-labels", [LS([str(x) for x in lib.nuclideLabels], 8), LI([1000] * len(nucs))]))
    for nuc in nucs:
        nmd = nuc.pmatrxMetadata
        out.append(("nuclide-heading", [B(nmd["hasNeutronHeatingAndDamage"]), I(nmd["maxScatteringOrder"]), B(nmd["hasGammaHeating"]),
                                        I(nmd["numberNeutronXS"]), I(nmd["collapsingRegionNumber"])]))
        if nmd["hasNeutronHeatingAndDamage"]:
            out.append(("neutron-heating-damage", [LF(nuc.neutronHeating), LF(nuc.neutronDamage)]))
        for k in range(nmd["numberNeutronXS"]):
            out.append(("activation-xs", [LF(nmd["activationXS"][k]), I(nmd["activationMT"][k]), I(nmd["activationMTU"][k])]))
        if nmd["hasGammaHeating"]:
            out.append(("gamma-heating", [LF(nuc.gammaHeating)]))
        for order in range(1, nmd["maxScatteringOrder"] + 1):
            m = nuc.isotropicProduction if order == 1 else (nuc.linearAnisotropicProduction if order == 2 else nuc.nOrderProductionMatrix[order])
            out.append(("production-matrix", [LF(np.asarray(m).reshape(ngam, nn).flatten(order="F"))]))
    return out


# ----------------------------------------------------------------------------------------------------


def dlayxs_records(d):
    md = d.metadata
    ng, nfam = md["numEnergyGroups"], md["numFamilies"]
    out = [("file-id", [S(md["label"], len(md["label"]))]),
           ("1D-file-control", [I(ng), I(len(d)), I(nfam), I(md["dummy"])]),
           ("2D-spectra", [LS([str(x) for x in md["nuclideIDs"]], 8), LF(md["precursorDecayConstants"]),
                           LF(np.asarray(md["delayEmissionSpectrum"]).reshape(ng, nfam).flatten(order="F")),
                           LF(d.neutronEnergyUpperBounds), F(md["minEnergy"]), LI(md["nkfam"]), LI(md["recordsToSkip"]),
                           LS([str(x) for x in md["dummy2"]], 4)])]
    for i, (nuc, data) in enumerate(d.items()):
        nk = int(md["nkfam"][i])
        out.append(("3D-yield", [LF(np.asarray(data.delayNeutronsPerFission)[:nk, :].flatten(order="C")), LI(d.nuclideFamily[nuc])]))
    return out


# ----------------------------------------------------------------------------------------------------

COMPXS_1D = ("numComps", "numGroups", "fileWideChiFlag", "numFissComps", "maxUpScatterGroups", "maxDownScatterGroups",
             "numDelayedFam", "maxScatteringOrder", "reservedFlag1", "reservedFlag2")
COMPXS_DIFF = ("powerConvMult", "d1Multiplier", "d1Additive", "d2Multiplier", "d2Additive", "d3Multiplier", "d3Additive")


def compxs_records(lib):
    md = lib.compxsMetadata
    ng, order = md["numGroups"], md["maxScatteringOrder"]
    out = [("1D-specifications", [I(md[k]) for k in COMPXS_1D])]
    two = []
    if md["fileWideChiFlag"]:
        two.append(LF(np.asarray(md["fileWideChi"]).flatten(order="F")))
    two += [LD(lib.neutronVelocity), LD(lib.neutronEnergyUpperBounds), Dd(md["minimumNeutronEnergy"])]
    if md["numDelayedFam"]:
        two += [LF(np.asarray(md["delayedChi"]).flatten(order="F")), LD(md["delayedDecayConstant"])]
    two.append(LI(md["compFamiliesWithPrecursors"]))
    out.append(("2D-composition-independent", two))
    for reg in lib.regions:
        rmd = reg.metadata
        mac = reg.macros
        three = [I(rmd["chiFlag"]), LI(rmd["numUpScatterGroups"]), LI(rmd["numDownScatterGroups"])]
        if rmd["numPrecursorFamilies"]:
            three.append(LI(rmd["numFamI"]))
        out.append(("3D-composition-specifications", three))
        tot = _dense(mac.totalScatter)
        high = {k: _dense(v) for k, v in mac.higherOrderScatter.items()}
        for g in range(ng):
            nup, ndn = int(rmd["numUpScatterGroups"][g]), int(rmd["numDownScatterGroups"][g])
            rows = list(reversed(range(g - ndn, g + nup + 1)))
            four = [Dd(mac[x][g]) for x in ("absorption", "total", "removal", "transport")]
            if rmd["chiFlag"]:
                four += [Dd(mac["fission"][g]), Dd(mac["nuSigF"][g]), LD(np.asarray(mac["chi"][g]).ravel())]
            four.append(LD([tot[r, g] for r in rows]))
            # armi 0.5.1 keeps one multiplier for directions 1 and 2 (both stored under "d1Multiplier"); a repaired
            # tree has its own "d2Multiplier"
            four += [Dd((rmd[k] if rmd[k] is not None else rmd["d1Multiplier"])[g]) for k in COMPXS_DIFF]
            if rmd["numPrecursorFamilies"]:
                four.append(LI(rmd["numPrecursorsProduced", g]))
            four.append(Dd(mac.n2n[g]))
            for o in range(1, order + 1):
                four.append(LD([high[o][r, g] for r in rows]))
            out.append(("4D-group-xs", four))
    out.append(("5D-power-conversion", [LD(md["fissionWattSeconds"]), LD(md["captureWattSeconds"])]))
    return out
