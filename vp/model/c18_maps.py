"""Independent model of ARMI's lattice-map text conventions (no armi imports).

A lattice map is a *picture* of a lattice: every token sits at a picture position (xt, yt) measured in half token
spacings horizontally and in text lines vertically (yt grows upward).  The picture is to scale: the centre of cell (i, j)
of the grid the map describes is an affine image of (xt, yt).  With the hexagonal unit steps of armi.reactor.grids
(checked by C07 against vp/model/hexmodel.py)

* flats up   : x = (sqrt3/2) p i,       y = p (j + i/2)        ->  xt = i,      yt = 2 j + i
* corners up : x = (p/2) (i - j),       y = (sqrt3/2) p (i+j)  ->  xt = i - j,  yt = i + j
* Cartesian  : xt = 2 i, yt = j

What remains is convention: where the picture origin is and where each text row starts.  These are taken from the
class docstrings / the module's unit-test maps:

* Cartesian: bottom-left token is (0, 0); every row starts at i = 0.
* hex 1/3 flats up: "(0,0) in the bottom left"; the map shows the sector [0 deg, 120 deg): a row starts at the
  left-most cell of its parity whose centre is strictly right of the 120-degree ray (or is the origin).
* hex full flats up: the picture is centred on (0, 0); R = (longest row) - 1 is the ring index of the hexagon outline;
  below the lower-left corner the rows start on the outline (indentation only), from there upward every row starts at
  the left edge of the bounding box (x = -R or -R+1 by parity) with placeholders; the same number of lines,
  (tokens in the bottom line) - 1, is cut from the bottom and the top corner.
* hex full corners up: 2R+1 lines of up to 2R+1 tokens, R = (longest row - 1)//2; the token R of line R (from the top)
  is (0, 0); line ``li`` is indented by ``li`` half spacings, every row starts at the left edge of the bounding
  rhombus with placeholders.
"""

PLACEHOLDER = "-"
KINDS = ("cart", "hexThird", "hexFullFlat", "hexFullTips")


def hexdist(i, j):
    return max(abs(i), abs(j), abs(i + j))


# ---------------------------------------------------------------------------------------------------------------
# picture <-> cell


def cell_from_picture(kind, xt, yt):
    """Invert the to-scale picture: picture position -> (i, j); None if not a lattice point."""
    if kind == "cart":
        if xt % 2:
            return None
        return (xt // 2, yt)
    if kind in ("hexThird", "hexFullFlat"):
        if (yt - xt) % 2:
            return None
        return (xt, (yt - xt) // 2)
    if kind == "hexFullTips":
        if (xt + yt) % 2:
            return None
        return ((xt + yt) // 2, (yt - xt) // 2)
    raise KeyError(kind)


def picture_from_cell(kind, i, j):
    if kind == "cart":
        return (2 * i, j)
    if kind in ("hexThird", "hexFullFlat"):
        return (i, 2 * j + i)
    if kind == "hexFullTips":
        return (i - j, i + j)
    raise KeyError(kind)


def in_third_sector(i, j):
    """Centre in [0 deg, 120 deg): y >= 0 and strictly right of the 120-degree ray, or the origin (flats up)."""
    if (i, j) == (0, 0):
        return True
    xt, yt = i, 2 * j + i  # x = (sqrt3/2) xt, y = yt / 2 (pitch 1)
    # right of the ray through the origin at 120 deg:  sqrt3 * x + y > 0  <=>  3 xt + yt > 0
    return yt >= 0 and 3 * xt + yt > 0


# ---------------------------------------------------------------------------------------------------------------
# row starts (the conventions)


def third_row_start(l):
    """Left-most picture x of text row ``l`` (from the bottom) of a 1/3 flats-up map."""
    if l == 0:
        return 0
    x = -((l - 1) // 3) - 2  # safely left of the 120-degree ray, then walk right
    while True:
        if (l - x) % 2 == 0 and 3 * x + l > 0:
            return x
        x += 1


def full_flat_row_start(R, l):
    """Left-most picture x of row ``l`` (from the bottom of the *uncut* hexagon, l = 0 .. 4R)."""
    if l < R:
        return -l  # on the lower-left outline edge
    return -R if (l - 2 * R + R) % 2 == 0 else -R + 1


# ---------------------------------------------------------------------------------------------------------------
# independent reader: token rows (top line first) -> {(i, j): token}   (placeholders included, as armi keeps them)


def read_rows(kind, rows):
    out = {}
    n = len(rows)
    if kind == "cart":
        for li, row in enumerate(rows):
            yt = n - 1 - li
            for c, tok in enumerate(row):
                out[cell_from_picture(kind, 2 * c, yt)] = tok
        return out
    if kind == "hexThird":
        for li, row in enumerate(rows):
            l = n - 1 - li
            x0 = third_row_start(l)
            for c, tok in enumerate(row):
                out[cell_from_picture(kind, x0 + 2 * c, l)] = tok
        return out
    if kind == "hexFullFlat":
        R = max(len(r) for r in rows) - 1
        cut = len(rows[-1]) - 1
        for li, row in enumerate(rows):
            l = n - 1 - li + cut  # row number in the uncut hexagon
            x0 = full_flat_row_start(R, l)
            yt = l - 2 * R
            for c, tok in enumerate(row):
                out[cell_from_picture(kind, x0 + 2 * c, yt)] = tok
        return out
    if kind == "hexFullTips":
        R = (max(len(r) for r in rows) - 1) // 2
        for li, row in enumerate(rows):
            yt = R - li
            for c, tok in enumerate(row):
                # line li is indented li half spacings; the centre token (line R, column R) is the origin
                xt = (li + 2 * c) - 3 * R
                out[cell_from_picture(kind, xt, yt)] = tok
        return out
    raise KeyError(kind)


def tokenize(text):
    return [line.split() for line in text.strip().splitlines()]


# ---------------------------------------------------------------------------------------------------------------
# renderer: truth dict -> token rows -> text  (the inverse convention; used to GENERATE texts from known contents)


def domain_cells(kind, size, cut=0):
    """All cells a map of the given size can show, as a sorted list."""
    cells = []
    if kind == "cart":
        nx, ny = size
        return [(i, j) for j in range(ny) for i in range(nx)]
    R = size
    for i in range(-R, R + 1):
        for j in range(-R, R + 1):
            if hexdist(i, j) > R:
                continue
            if kind == "hexThird" and not in_third_sector(i, j):
                continue
            if kind == "hexFullFlat":
                l = 2 * j + i + 2 * R
                if l < cut or l > 4 * R - cut:
                    continue
            cells.append((i, j))
    return sorted(cells)


def render_rows(kind, size, contents, cut=0, strip_trailing=True, trim_rows=False):
    """Token rows (top line first) showing ``contents`` ({(i,j): label}); other cells are placeholders.

    Returns (rows, offsets) where offsets are indentations in half token spacings.
    """
    pos = {}
    for (i, j), lab in contents.items():
        pos[picture_from_cell(kind, i, j)] = lab
    rows, offs = [], []
    if kind == "cart":
        nx, ny = size
        for yt in range(ny - 1, -1, -1):
            rows.append([pos.get((2 * c, yt), PLACEHOLDER) for c in range(nx)])
            offs.append(0)
    elif kind == "hexThird":
        R = size
        lmax = max([yt for (_xt, yt) in pos] + [0])
        for l in range(lmax, -1, -1):
            x0 = third_row_start(l)
            xs = [xt for (xt, yt) in pos if yt == l]
            xmax = max(xs) if xs else x0
            rows.append([pos.get((x, l), PLACEHOLDER) for x in range(x0, xmax + 1, 2)])
            offs.append(x0)
    elif kind == "hexFullFlat":
        R = size
        for l in range(4 * R - cut, cut - 1, -1):
            yt = l - 2 * R
            x0 = full_flat_row_start(R, l)
            # right end of the hexagon outline in this row
            xs = [xt for xt in range(x0, R + 1, 2) if hexdist(*cell_from_picture(kind, xt, yt)) <= R]
            xmax = max(xs) if xs else x0
            rows.append([pos.get((x, yt), PLACEHOLDER) for x in range(x0, xmax + 1, 2)])
            offs.append(x0)
    elif kind == "hexFullTips":
        R = size
        for li in range(2 * R + 1):
            yt = R - li
            row = []
            for c in range(2 * R + 1):
                xt = (li + 2 * c) - 3 * R
                cell = cell_from_picture(kind, xt, yt)
                if hexdist(*cell) > R:
                    if c < R:
                        row.append(PLACEHOLDER)  # left of the outline: placeholder keeps the columns aligned
                    continue
                row.append(pos.get((xt, yt), PLACEHOLDER))
            rows.append(row)
            offs.append(li)
    else:
        raise KeyError(kind)
    if strip_trailing:
        keep_full = set()
        if kind == "hexFullFlat":
            keep_full.add(len(rows) - 1)  # the bottom line's length tells the number of cut lines
        new = []
        for n, row in enumerate(rows):
            if n not in keep_full:
                while len(row) > 1 and row[-1] == PLACEHOLDER:
                    row = row[:-1]
            new.append(row)
        rows = new
    if trim_rows:
        # rows without any label that a user would simply not write, where the conventions allow it: rows are counted from the
        # top in corners-up maps (empty BOTTOM rows can go) and from the bottom in Cartesian maps (empty TOP rows can go); 1/3
        # maps already end at the last occupied row; full flats-up maps need both ends (the bottom line tells the cut)
        def empty(row):
            return all(t == PLACEHOLDER for t in row)

        if kind == "hexFullTips":
            while len(rows) > 1 and empty(rows[-1]):
                rows, offs = rows[:-1], offs[:-1]
        elif kind == "cart":
            while len(rows) > 1 and empty(rows[0]):
                rows, offs = rows[1:], offs[1:]
    m = min(offs) if offs else 0
    return rows, [o - m for o in offs]


def rows_to_text(rows, offsets, sep=" ", pad=True):
    w = max(len(t) for r in rows for t in r)
    lines = []
    for row, off in zip(rows, offsets):
        toks = [t.ljust(w) if pad else t for t in row]
        lines.append((" " * (w * off) if pad else "") + (sep * w if pad else sep).join(toks))
    return "\n".join(line.rstrip() for line in lines) + "\n"


# ---------------------------------------------------------------------------------------------------------------
# description of two known-defect shapes (used to classify / avoid them, NOT as an oracle)


def data_frame_problem(kind, contents):
    """When index data is drawn, the hex map classes infer the outline ring as max(i + j) over the cells and (flats up)
    the number of cut corner lines from the cells on the j = 0 and j = 1 rays only.  Returns

    * "ijmax"   if a cell lies outside the hexagon of ring max(i + j) (its hex distance is larger),
    * "corner"  if (flats up) a cell lies in a text row beyond the lines kept by the corner inference,
    * "right-edge" if (full maps) no cell has i == max(i + j): no drawn row reaches the right edge of the frame,
    * "bottom-row" if (full flats up) the drawn bottom line does not end on the outline,
    * None      if the inferred frame contains every cell (or the kind is Cartesian).
    """
    if kind == "cart" or not contents:
        return None
    M = max(i + j for (i, j) in contents)
    if any(hexdist(i, j) > M for (i, j) in contents):
        return "ijmax"
    right_edge_empty = max(i for (i, _j) in contents) < M
    if kind == "hexFullTips":
        # the writer strips trailing placeholders and the reader takes the outline ring from the longest row
        return "right-edge" if right_edge_empty else None
    ray0 = [i for (i, j) in contents if j == 0]
    ray1 = [i for (i, j) in contents if j == 1]
    a = max(ray0) if ray0 else -1
    b = max(ray1) if ray1 else -1
    off = (M - a) * 2 - 1
    if b == a - 1:
        off += 1
    for (i, j) in contents:
        if kind == "hexThird":
            if 2 * j + i > 2 * M - off:
                return "corner"
        else:
            l = 2 * j + i + 2 * M
            if l < off or l > 4 * M - off:
                return "corner"
    if kind == "hexFullFlat" and right_edge_empty:
        return "right-edge"
    if kind == "hexFullFlat":
        # the reader takes the number of cut lines from the length of the bottom line, the writer strips its
        # trailing placeholders
        lmin = min(2 * j + i + 2 * M for (i, j) in contents)
        if lmin == off:
            x0 = full_flat_row_start(M, lmin)
            xmax = max(i for (i, j) in contents if 2 * j + i + 2 * M == lmin)
            if (xmax - x0) // 2 != off:
                return "bottom-row"
    return None


def repair_data_frame(kind, contents, label):
    """Add the cells on the 30-degree corner that make the inferred frame the full hexagon of the largest ring."""
    D = max(hexdist(i, j) for (i, j) in contents)
    new = dict(contents)
    new.setdefault((D, 0), label)
    if kind != "hexFullTips" and D >= 1:
        new.setdefault((D - 1, 1), label)
    return new
