"""Reference encoder for CCCC records (C09), independent of armi.

A *field* is plain data::

    {"t": "int", "v": 3}            {"t": "long", "v": 2**40}        {"t": "bool", "v": True}
    {"t": "float", "v": 1.5}        {"t": "double", "v": 1e-7}       {"t": "str", "v": "ABC", "n": 8}
    {"t": "list", "of": "int|float|double|str", "v": [...], "n": 8}
    {"t": "matrix|dmatrix|imatrix", "shape": [outer, ..., inner], "v": [stream-ordered values]}
    {"t": "map", "keys": ["NINTI", "EFFK"], "v": [4, 1.0]}

A binary record is ``int32 count | payload | int32 count`` (little endian, Fortran sequential access), the payload
being the concatenation of the field encodings: int -> 4 bytes, long -> 8 bytes, float -> IEEE single, double ->
IEEE double, string -> ``n`` bytes left justified and blank padded, bool -> int 0/1, list -> its items, matrix ->
its elements in Fortran (first index fastest) order, implicitly typed map -> int for names starting with I..N,
float otherwise.
"""
import struct

IMPLICIT_INT = "IJKLMN"
SIZES = {"int": 4, "long": 8, "float": 4, "double": 8, "bool": 4}


def scalar_kind(name):
    """FORTRAN-77 implicit typing of a variable name."""
    return "int" if name[0].upper() in IMPLICIT_INT else "float"


def enc_scalar(kind, v, n=0):
    if kind == "int":
        return struct.pack("<i", int(v))
    if kind == "long":
        return struct.pack("<q", int(v))
    if kind == "bool":
        return struct.pack("<i", 1 if v else 0)
    if kind == "float":
        return struct.pack("<f", float(v))
    if kind == "double":
        return struct.pack("<d", float(v))
    if kind == "str":
        raw = v.encode("ascii")
        if len(raw) > n:
            raise ValueError("string longer than its field")
        return raw + b" " * (n - len(raw))
    raise KeyError(kind)


def enc_field(f):
    t = f["t"]
    if t in ("int", "long", "bool", "float", "double"):
        return enc_scalar(t, f["v"])
    if t == "str":
        return enc_scalar("str", f["v"], f["n"])
    if t == "list":
        return b"".join(enc_scalar(f["of"], x, f.get("n", 0)) for x in f["v"])
    if t in ("matrix", "dmatrix", "imatrix"):
        kind = {"matrix": "float", "dmatrix": "double", "imatrix": "int"}[t]
        return b"".join(enc_scalar(kind, x) for x in f["v"])
    if t == "map":
        return b"".join(enc_scalar(scalar_kind(k), x) for k, x in zip(f["keys"], f["v"]))
    raise KeyError(t)


def payload(fields):
    return b"".join(enc_field(f) for f in fields)


def frame(pl):
    n = struct.pack("<i", len(pl))
    return n + pl + n


def record(fields):
    return frame(payload(fields))


def split_frames(buf):
    """Split a binary CCCC file into payloads.  Returns (payloads, problem) - ``problem`` is None when every record
    is framed by identical leading/trailing counts equal to its payload length and nothing is left over."""
    out = []
    o = 0
    n = len(buf)
    while o < n:
        if o + 4 > n:
            return out, "truncated leading count at byte %d" % o
        (cnt,) = struct.unpack("<i", buf[o : o + 4])
        if cnt < 0 or o + 8 + cnt > n:
            return out, "record %d at byte %d: leading count %d runs past the end of the file (%d bytes)" % (len(out), o, cnt, n)
        (cnt2,) = struct.unpack("<i", buf[o + 4 + cnt : o + 8 + cnt])
        if cnt2 != cnt:
            return out, "record %d at byte %d: leading count %d, trailing count %d" % (len(out), o, cnt, cnt2)
        out.append(buf[o + 4 : o + 4 + cnt])
        o += 8 + cnt
    return out, None


def split_ascii(text):
    """ASCII records as armi documents them: one line per record, ' %+10d' count first and last.

    Returns (list of (count, body), problem)."""
    out = []
    if text and not text.endswith("\n"):
        return out, "file does not end with a newline"
    lines = text.split("\n")[:-1]
    for i, line in enumerate(lines):
        if len(line) < 22:
            return out, "record %d shorter than two count fields" % i
        try:
            a = int(line[:11])
            b = int(line[-11:])
        except ValueError:
            return out, "record %d: count fields not integers (%r ... %r)" % (i, line[:11], line[-11:])
        if a != b:
            return out, "record %d: leading count %d, trailing count %d" % (i, a, b)
        out.append((a, line[11:-11]))
    return out, None


# ----------------------------------------------------------------------------------------------------
# deterministic expansion of a small seed into bulk values (a counter hash, not an RNG: the same case always
# gives the same values on every machine)

_MASK = (1 << 64) - 1


def _mix(x):
    x = (x + 0x9E3779B97F4A7C15) & _MASK
    z = x
    z = ((z ^ (z >> 30)) * 0xBF58476D1CE4E5B9) & _MASK
    z = ((z ^ (z >> 27)) * 0x94D049BB133111EB) & _MASK
    return z ^ (z >> 31)


class Fill:
    """Values derived from (seed, counter).  ``pal32``/``pal64`` are Hypothesis-drawn extremes mixed in."""

    def __init__(self, seed, pal32=(), pal64=()):
        self.state = _mix(int(seed) & _MASK)
        self.pal32 = list(pal32)
        self.pal64 = list(pal64)

    def u(self):
        self.state = (self.state + 0x9E3779B97F4A7C15) & _MASK
        return _mix(self.state)

    def i(self, lo, hi):
        return lo + self.u() % (hi - lo + 1)

    def f32(self):
        """A float that is exactly representable in IEEE single precision (24-bit mantissa, small exponent)."""
        h = self.u()
        if self.pal32 and h % 8 == 0:
            return self.pal32[(h >> 8) % len(self.pal32)]
        m = ((h >> 8) % (1 << 24)) - (1 << 23)
        e = ((h >> 40) % 41) - 30
        return float(m) * 2.0**e

    def f64(self):
        """A double with a full 53-bit mantissa and a two-digit decimal exponent."""
        h = self.u()
        if self.pal64 and h % 8 == 0:
            return self.pal64[(h >> 8) % len(self.pal64)]
        m = ((h >> 8) % (1 << 53)) - (1 << 52)
        e = (self.u() % 121) - 100
        return float(m) * 2.0**e

    def s(self, n, alphabet="ABCDEFGHIJKLMNOPQRSTUVWXYZ0123456789-_.+ "):
        k = self.i(0, n)
        txt = "".join(alphabet[self.u() % len(alphabet)] for _ in range(k))
        return txt.rstrip(" ")

    def ints(self, n, lo, hi):
        return [self.i(lo, hi) for _ in range(n)]

    def f32s(self, n):
        return [self.f32() for _ in range(n)]

    def f64s(self, n):
        return [self.f64() for _ in range(n)]

    def strs(self, n, width):
        return [self.s(width) for _ in range(n)]


def block_bounds(m, n, nblok):
    """JL, JU (1-based, inclusive) of block ``m`` (1-based) as the CCCC-IV file descriptions give them:
    JL=(M-1)*((N-1)/NBLOK+1)+1, JU=MIN0(N, M*((N-1)/NBLOK+1))."""
    x = (n - 1) // nblok + 1
    return (m - 1) * x + 1, min(n, m * x)


def valid_nblok(n):
    """Block counts for which every block JL..JU is non-empty."""
    return [b for b in range(1, n + 1) if block_bounds(b, n, b)[0] <= n]
