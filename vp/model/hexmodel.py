"""Independent hexagonal-lattice geometry (no armi imports).

Cells are axial coordinates (i, j); cube coordinates are (i, j, -i-j).  Everything about rings and
positions is derived by *walking* the ring, not by the edge formulas ARMI uses.
"""
import math

SQRT3 = math.sqrt(3.0)

# walking directions counter-clockwise around a ring, starting at the corner on the +i axis
_WALK = [(-1, 1), (-1, 0), (0, -1), (1, -1), (1, 0), (0, 1)]


def hex_distance(i, j):
    return max(abs(i), abs(j), abs(i + j))


def ring_cells(ring):
    """Cells of 1-based ``ring`` in position order (position 1 first)."""
    if ring == 1:
        return [(0, 0)]
    n = ring - 1
    i, j = n, 0
    out = []
    for di, dj in _WALK:
        for _ in range(n):
            out.append((i, j))
            i += di
            j += dj
    assert (i, j) == (n, 0)
    return out


def centre(i, j, pitch, corners_up):
    """Cartesian centre of cell (i, j)."""
    if corners_up:
        # i axis at 60 degrees, j axis at 120 degrees
        return (pitch * 0.5 * (i - j), pitch * SQRT3 / 2.0 * (i + j))
    # flats up: i axis at 30 degrees, j axis at 90 degrees
    return (pitch * SQRT3 / 2.0 * i, pitch * (j + 0.5 * i))


def rotate60(i, j, k):
    """Rotate an axial index by k * 60 degrees counter-clockwise (exact integer arithmetic)."""
    k %= 6
    for _ in range(k):
        # one CCW 60-degree step: (q, r, s) -> (-r, -s, -q)
        q, r, s = i, j, -i - j
        i, j = -r, -s
    return i, j


def rot_xy(x, y, deg):
    a = math.radians(deg)
    c, s = math.cos(a), math.sin(a)
    return (c * x - s * y, s * x + c * y)


def min_rings(n):
    """Least r with 1 + 3 r (r - 1) >= n, by integer search (n >= 1)."""
    if n <= 0:
        return 0
    # integer sqrt based start, then fix up exactly
    r = max(1, int(math.isqrt(max(0, (4 * (n - 1)) // 3)) // 2))
    while 1 + 3 * r * (r - 1) < n:
        r += 1
    while r > 1 and 1 + 3 * (r - 1) * (r - 2) >= n:
        r -= 1
    return r


def in_first_third(i, j, include_top_edge):
    """Is the cell in the modelled third [0 deg, 120 deg) (flats-up orientation angles used only for
    classification: 0 deg line is i>0, i=-2j; 120 deg line is j>0, j=-2i)?

    Exact integer classification through cross products against the two boundary directions.
    Boundary direction d0 (theta=0): cell (2,-1); d120 (theta=120): cell (-1,2).
    A cell c is inside iff it is CCW of (or on) d0 and strictly CW of d120 (or on it if the top
    edge is included).  The cross product sign in lattice coordinates equals the Cartesian one
    because the lattice basis is positively oriented.
    """
    if i == 0 and j == 0:
        return True

    def cross(a, b):
        return a[0] * b[1] - a[1] * b[0]

    c = (i, j)
    d0, d120 = (2, -1), (-1, 2)
    c0 = cross(d0, c)  # >0: c is CCW of d0
    c120 = cross(c, d120)  # >0: c is CW of d120
    dot0 = _dot(d0, c)
    dot120 = _dot(d120, c)
    on0 = c0 == 0 and dot0 > 0
    on120 = c120 == 0 and dot120 > 0
    if on0:
        return True
    if on120:
        return include_top_edge
    return c0 > 0 and c120 > 0


def _dot(a, b):
    """Euclidean dot product of two lattice vectors (axial basis with 60 degrees between axes)."""
    return a[0] * b[0] + a[1] * b[1] + 0.5 * (a[0] * b[1] + a[1] * b[0])


# ---------------------------------------------------------------------------------------------
# additions for C08 (symmetry / rotation); nothing above this line was changed


def polar_deg(i, j, corners_up):
    """Polar angle of the cell centre in degrees in [0, 360), measured in the frame of the lattice:
    for corners-up grids the lattice is the flats-up lattice rotated 30 degrees counter-clockwise, so
    30 degrees are subtracted (the third-core "0 degree" line is the image of the flats-up x axis)."""
    x, y = centre(i, j, 1.0, corners_up)
    a = math.degrees(math.atan2(y, x)) - (30.0 if corners_up else 0.0)
    return a % 360.0


def angle_near(a_deg, target_deg, tol_deg=1e-7):
    return abs((a_deg - target_deg + 180.0) % 360.0 - 180.0) <= tol_deg


def symmetry_line(i, j):
    """Which third-core symmetry line the cell centre lies on: 'center', 0, 60, 120 or None.

    Exact: the centre of cell c lies on the ray of direction d iff cross(d, c) == 0 and dot(d, c) > 0.
    Ray directions in lattice coordinates (flats-up angles): 0 deg = (2,-1), 60 deg = (1,1), 120 deg = (-1,2).
    """
    if i == 0 and j == 0:
        return "center"
    for deg, d in ((0, (2, -1)), (60, (1, 1)), (120, (-1, 2))):
        if d[0] * j - d[1] * i == 0 and _dot(d, (i, j)) > 0:
            return deg
    return None


def cell_number_to_ij(n):
    """Cumulative 1-based cell number (1 = centre, 2..7 = ring 2 positions 1..6, ...) -> (ring, pos, i, j)."""
    ring = 1
    first = 1  # number of the first cell of ``ring``
    while True:
        count = 1 if ring == 1 else 6 * (ring - 1)
        if n < first + count:
            pos = n - first + 1
            i, j = ring_cells(ring)[pos - 1]
            return ring, pos, i, j
        first += count
        ring += 1


def ij_to_cell_number(i, j):
    ring = hex_distance(i, j) + 1
    before = 0 if ring == 1 else 1 + 3 * (ring - 1) * (ring - 2)
    return before + ring_cells(ring).index((i, j)) + 1


def rotated_cell_number(n, k):
    """Cell number of cell ``n`` after the lattice is turned k * 60 degrees counter-clockwise."""
    _ring, _pos, i, j = cell_number_to_ij(n)
    return ij_to_cell_number(*rotate60(i, j, k))


def match_point_sets(actual, expected, tol):
    """True iff the two lists of points are equal as sets within ``tol`` (one-to-one matching)."""
    if len(actual) != len(expected):
        return False
    left = list(expected)
    for a in actual:
        hit = None
        for n, e in enumerate(left):
            if all(abs(float(x) - float(y)) <= tol for x, y in zip(a, e)):
                hit = n
                break
        if hit is None:
            return False
        left.pop(hit)
    return not left


def dedupe_points(points, tol):
    out = []
    for p in points:
        if not any(all(abs(x - y) <= tol for x, y in zip(p, q)) for q in out):
            out.append(p)
    return out
