"""Independent hexagonal-lattice geometry (no armi imports).

Cells are axial coordinates (i, j); cube coordinates are (i, j, -i-j).  Everything about rings and
positions is derived by *walking* the ring, not by the edge formulas ARMI uses.
"""
import math

SQRT3 = math.sqrt(3.0)

# walking directions counter-clockwise around a ring, starting at the corner on the +i axis
_WALK = [(-1, 1), (-1, 0), (0, -1), (1, -1), (1, 0), (0, 1)]


def hex_distance(i, j):
    return max(abs(i), abs(j), abs(i + j))


def ring_cells(ring):
    """Cells of 1-based ``ring`` in position order (position 1 first)."""
    if ring == 1:
        return [(0, 0)]
    n = ring - 1
    i, j = n, 0
    out = []
    for di, dj in _WALK:
        for _ in range(n):
            out.append((i, j))
            i += di
            j += dj
    assert (i, j) == (n, 0)
    return out


def centre(i, j, pitch, corners_up):
    """Cartesian centre of cell (i, j)."""
    if corners_up:
        # i axis at 60 degrees, j axis at 120 degrees
        return (pitch * 0.5 * (i - j), pitch * SQRT3 / 2.0 * (i + j))
    # flats up: i axis at 30 degrees, j axis at 90 degrees
    return (pitch * SQRT3 / 2.0 * i, pitch * (j + 0.5 * i))


def rotate60(i, j, k):
    """Rotate an axial index by k * 60 degrees counter-clockwise (exact integer arithmetic)."""
    k %= 6
    for _ in range(k):
        # one CCW 60-degree step: (q, r, s) -> (-r, -s, -q)
        q, r, s = i, j, -i - j
        i, j = -r, -s
    return i, j


def rot_xy(x, y, deg):
    a = math.radians(deg)
    c, s = math.cos(a), math.sin(a)
    return (c * x - s * y, s * x + c * y)


def min_rings(n):
    """Least r with 1 + 3 r (r - 1) >= n, by integer search (n >= 1)."""
    if n <= 0:
        return 0
    # integer sqrt based start, then fix up exactly
    r = max(1, int(math.isqrt(max(0, (4 * (n - 1)) // 3)) // 2))
    while 1 + 3 * r * (r - 1) < n:
        r += 1
    while r > 1 and 1 + 3 * (r - 1) * (r - 2) >= n:
        r -= 1
    return r


def in_first_third(i, j, include_top_edge):
    """Is the cell in the modelled third [0 deg, 120 deg) (flats-up orientation angles used only for
    classification: 0 deg line is i>0, i=-2j; 120 deg line is j>0, j=-2i)?

    Exact integer classification through cross products against the two boundary directions.
    Boundary direction d0 (theta=0): cell (2,-1); d120 (theta=120): cell (-1,2).
    A cell c is inside iff it is CCW of (or on) d0 and strictly CW of d120 (or on it if the top
    edge is included).  The cross product sign in lattice coordinates equals the Cartesian one
    because the lattice basis is positively oriented.
    """
    if i == 0 and j == 0:
        return True

    def cross(a, b):
        return a[0] * b[1] - a[1] * b[0]

    c = (i, j)
    d0, d120 = (2, -1), (-1, 2)
    c0 = cross(d0, c)  # >0: c is CCW of d0
    c120 = cross(c, d120)  # >0: c is CW of d120
    dot0 = _dot(d0, c)
    dot120 = _dot(d120, c)
    on0 = c0 == 0 and dot0 > 0
    on120 = c120 == 0 and dot120 > 0
    if on0:
        return True
    if on120:
        return include_top_edge
    return c0 > 0 and c120 > 0


def _dot(a, b):
    """Euclidean dot product of two lattice vectors (axial basis with 60 degrees between axes)."""
    return a[0] * b[0] + a[1] * b[1] + 0.5 * (a[0] * b[1] + a[1] * b[0])
