"""Reference models for C11 (pure Python, no armi, no numpy).

* ``overlaps``            - overlap lengths of one window with a stack of cells
* ``step_resample``       - exact mean / integral of a step function over output intervals
* ``filter_valid``        - validity predicates for a filtered mesh
* ``greedy_filter``       - anchor-free reference of "keep the preferred point" filtering
* ``anchored_filter``     - the same walk with anchors (stack formulation of the documented conflict rule)
* ``avg_within_tol``      - literal reading of the documented iterative outlier removal
"""
import math


def cumulative(heights, start=0.0):
    """[z0, z1, ...] with z accumulating left to right (same association as Assembly.calculateZCoords)."""
    z = [start]
    b = start
    for h in heights:
        b = b + h
        z.append(b)
    return z


def overlaps(zs, lo, hi):
    """Signed overlap of [lo, hi] with every cell [zs[i], zs[i+1]] (negative = gap)."""
    return [min(zs[i + 1], hi) - max(zs[i], lo) for i in range(len(zs) - 1)]


# ---------------------------------------------------------------------------------------------
# step functions


def step_resample(xin, yin, xout, avg):
    """Per output interval: dict(kind=..., value=..., pieces=[(i, overlap)], partial=bool, scale=float).

    kind: "zero" (no overlap with the input range), "none" (a bin with positive overlap holds None),
    "value".  ``yin`` entries are None, floats or lists of floats.  For avg the mean is taken over the covered
    part of the interval; ``partial`` tells that the interval sticks out of the input range.
    """
    n = len(yin)
    res = []
    for j in range(len(xout) - 1):
        a, b = xout[j], xout[j + 1]
        pieces = []
        for i in range(n):
            o = min(b, xin[i + 1]) - max(a, xin[i])
            if o > 0:
                pieces.append((i, o))
        partial = a < xin[0] or b > xin[-1]
        if not pieces:
            res.append({"kind": "zero", "value": 0, "pieces": [], "partial": partial, "scale": 0.0})
            continue
        if any(yin[i] is None for i, _o in pieces):
            res.append({"kind": "none", "value": None, "pieces": pieces, "partial": partial, "scale": 0.0})
            continue
        first = yin[pieces[0][0]]
        isvec = isinstance(first, (list, tuple))
        width = len(first) if isvec else 1

        def comp(y, g):
            return y[g] if isvec else y

        vals = []
        scale = 0.0
        for g in range(width):
            if avg:
                num = math.fsum(comp(yin[i], g) * o for i, o in pieces)
                den = math.fsum(o for _i, o in pieces)
                vals.append(num / den)
                scale = max(scale, max(abs(comp(yin[i], g)) for i, _o in pieces))
            else:
                vals.append(math.fsum(comp(yin[i], g) * (o / (xin[i + 1] - xin[i])) for i, o in pieces))
                scale = max(scale, math.fsum(abs(comp(yin[i], g)) for i, _o in pieces))
        res.append({"kind": "value", "value": vals if isvec else vals[0], "pieces": pieces, "partial": partial,
                    "scale": scale})
    return res


def inside_one_bin(xin, a, b):
    """True when [a, b] lies strictly inside one input bin (both ends interior to the same bin)."""
    for i in range(len(xin) - 1):
        if xin[i] < a and b < xin[i + 1]:
            return True
    return False


def starts_below_first(xin, a, b):
    """Output interval that begins below the first input mesh point and reaches it: straddling it, or (single-bin
    input only) ending exactly on it."""
    return a < xin[0] and (b > xin[0] or (b == xin[0] and len(xin) == 2))


# ---------------------------------------------------------------------------------------------
# mesh filtering


def filter_valid(candidates, minimum, anchors, result):
    """List of (clause, detail) that the filtered mesh violates."""
    bad = []
    cset = set(candidates)
    if any(result[i + 1] <= result[i] for i in range(len(result) - 1)):
        bad.append(("not-strictly-increasing", "%r" % (result,)))
    extra = [x for x in result if x not in cset]
    if extra:
        bad.append(("not-subset-of-candidates", "%r" % (extra,)))
    thin = [(result[i], result[i + 1]) for i in range(len(result) - 1) if abs(result[i + 1] - result[i]) < minimum]
    if thin:
        bad.append(("gap-below-minimum", "%r" % (thin,)))
    lost = sorted(a for a in set(anchors) if a in cset and a not in set(result))
    if lost:
        bad.append(("anchor-dropped", "%r" % (lost,)))
    return bad


def anchors_too_close(candidates, minimum, anchors):
    """Two distinct anchors present among the candidates closer than the minimum (None if none)."""
    cset = set(candidates)
    a = sorted(x for x in set(anchors) if x in cset)
    for i in range(len(a) - 1):
        if abs(a[i + 1] - a[i]) < minimum:
            return (a[i], a[i + 1])
    return None


def greedy_filter(candidates, minimum, preference):
    """Anchor-free filtering: walk from the preferred end, keep a point iff it is >= minimum from the last kept."""
    pts = sorted(set(candidates), reverse=(preference == "top"))
    kept = []
    for p in pts:
        if not kept or abs(p - kept[-1]) >= minimum:
            kept.append(p)
    return sorted(kept)


class AnchorsTooClose(Exception):
    pass


def anchored_filter(candidates, minimum, anchors, preference, info=None):
    """Documented filtering rule as one pass with a stack: walk from the preferred end; a point further than the
    minimum from the last kept point is kept; otherwise the two conflict and the anchor wins (the earlier point
    gives way to an anchor, possibly several earlier points in turn), a non-anchor newcomer is dropped, and two
    anchors in conflict are a loud failure.  ``info['borderline']`` is set when some distance is within 1e-9 of
    the minimum (the float outcome is then not trusted)."""
    anchors = set(anchors)
    pts = sorted(set(candidates), reverse=(preference == "top"))
    kept = []
    for p in pts:
        while True:
            if not kept:
                kept.append(p)
                break
            d = abs(p - kept[-1])
            if info is not None and abs(d - minimum) < 1e-9:
                info["borderline"] = True
            if d >= minimum:
                kept.append(p)
                break
            if p in anchors and kept[-1] in anchors:
                raise AnchorsTooClose((kept[-1], p))
            if p in anchors:
                kept.pop()
                continue
            break
    return sorted(kept)


# ---------------------------------------------------------------------------------------------
# average within tolerance


def avg_within_tol(rows, tol, borderline=1e-9):
    """Documented procedure: repeat {column means; drop every row with an entry further than tol (relative) from
    the mean} until nothing is dropped.  Returns (avg or None if no row survives, survivors, ambiguous)."""
    rows = [list(map(float, r)) for r in rows]
    idx = list(range(len(rows)))
    ambiguous = False
    avg = None
    while True:
        if not idx:
            return None, [], ambiguous
        ncol = len(rows[0])
        avg = [math.fsum(rows[i][c] for i in idx) / len(idx) for c in range(ncol)]
        keep = []
        for i in idx:
            ok = True
            for c in range(ncol):
                d = abs(rows[i][c] - avg[c]) / avg[c]
                if abs(d - tol) < borderline * max(1.0, tol):
                    ambiguous = True
                if d > tol:
                    ok = False
            if ok:
                keep.append(i)
        if len(keep) == len(idx):
            return avg, keep, ambiguous
        idx = keep
