"""Reference model for C15: cycle histories, node numbering and the hook schedule of a standard run.

Written from the property statement, the user documentation of the cycle inputs (doc/user/inputs.rst,
setting descriptions), the developer guide ("interfaces are interacted with one-by-one as the interface stack is
traversed in order") and the docstrings of ``Operator`` / ``addInterface`` / ``interactAll*``.  It shares no code
with armi and never imports it.

Vocabulary
----------
history   resolved cycle history: per cycle the list of step lengths (days), cycle length, availability and the
          power fraction of each step.
stack     list of interface descriptions in stack order (dicts with name, enabled, bolForce, reverseAtEOL, ...).
event     dict(ev=<hook>, name=<interface>, args=[...], cycle=, node=, + the time-state fields that the
          documentation defines at that point).  Fields that the documentation leaves open are absent.
"""

EVENTS = ("BOL", "BOC", "EveryNode", "EOC", "EOL", "Coupled")


class InvalidHistory(Exception):
    """The configuration is one the documentation declares invalid."""

    def __init__(self, reason):
        Exception.__init__(self, reason)
        self.reason = reason


# ------------------------------------------------------------------------------------------------
# cycle history


def expand_repeats(items):
    """[100, 150, '9R'] -> 100, then ten times 150 ("R is repeat"; both 'R2' and '2R' spellings are documented)."""
    out = []
    for item in items:
        if isinstance(item, str) and "R" in item.upper():
            count = int(item.upper().replace("R", ""))
            if not out:
                raise InvalidHistory("repeat-without-value")
            out.extend([out[-1]] * count)
        else:
            out.append(float(item))
    return out


def _listed(h, plural, single, n):
    raw = h.get(plural)
    if raw:
        return expand_repeats(raw)
    return [float(h[single])] * n


def resolve_history(h):
    """Resolve the user input ``h`` (see vp/props/c15.py for the layout) into a history dict.

    Raises InvalidHistory for the configurations documented as invalid.
    """
    n = h["nCycles"]
    steps, lengths, avail, fractions = [], [], [], []
    if h["style"] == "simple":
        b = h["burnSteps"]
        lengths = _listed(h, "cycleLengths", "cycleLength", n)
        avail = _listed(h, "availabilityFactors", "availabilityFactor", n)
        pf = expand_repeats(h["powerFractions"]) if h.get("powerFractions") else [1.0] * n
        for nm, lst in (("cycleLengths", lengths), ("availabilityFactors", avail), ("powerFractions", pf)):
            if len(lst) != n:
                raise InvalidHistory("list-length:" + nm)
        if b == 0 and n > 1:
            # "Cannot run multi-cycle standard cases with 0 burnSteps per cycle."
            raise InvalidHistory("multi-cycle-zero-burn-steps")
        for c in range(n):
            # "the burnup step time will be computed as cycle length/n"; at power for availability * length days
            steps.append([lengths[c] * avail[c] / b] * b if b else [])
            fractions.append([pf[c]] * b)
    else:
        cycles = h["cycles"]
        if len(cycles) != n:
            raise InvalidHistory("list-length:cycles")
        for cyc in cycles:
            a = float(cyc.get("availability factor", 1.0))
            if "step days" in cyc:
                s = expand_repeats(cyc["step days"])
                length = sum(s) / a
            elif "cumulative days" in cyc:
                s, prev = [], 0.0
                for v in cyc["cumulative days"]:
                    s.append(float(v) - prev)
                    prev = float(v)
                length = sum(s) / a
            else:
                b = cyc["burn steps"]
                length = float(cyc["cycle length"])
                s = [length * a / b] * b if b else []
            pf = expand_repeats(cyc["power fractions"]) if "power fractions" in cyc else [1.0] * len(s)
            if len(pf) != len(s):
                raise InvalidHistory("power-fractions-vs-steps")
            steps.append(s)
            lengths.append(length)
            avail.append(a)
            fractions.append(pf)
    return {"nCycles": n, "steps": steps, "cycleLengths": lengths, "availability": avail, "powerFractions": fractions}


def visit_order(burn_steps):
    """(cycle, node) pairs in the order a run from the very beginning visits them: n steps -> n+1 nodes."""
    return [(c, node) for c, b in enumerate(burn_steps) for node in range(b + 1)]


def step_order(burn_steps):
    """(cycle, node at the start of the step) for the cumulative steps 1, 2, 3, ..."""
    return [(c, node) for c, b in enumerate(burn_steps) for node in range(b)]


# ------------------------------------------------------------------------------------------------
# interface stack


def build_stack(entries):
    """Apply ``addInterface(interface, index=...)`` one after the other: append, or insert at the index."""
    stack = []
    for e in entries:
        if e.get("index") is None:
            stack.append(e)
        else:
            stack.insert(e["index"], e)
    return stack


def final_flags(entry):
    """(enabled, bolForce) an interface ends up with after the documented calls made on it before the run.

    entry keys (all optional except the addInterface arguments ``addEnabled``/``addBolForce``):
    reuse  dict(enabled=, bolForce=): the object was attached before with these arguments and removed again
    pre    [[method, flag], ...] calls ``interface.enabled(flag)`` / ``interface.bolForce(flag)`` before it is added
    post   the same after it was added

    Interface.enabled(flag): "sets enabled to that flag"; Interface.bolForce(flag): "Will set the bolForce flag to
    this boolean"; addInterface(enabled=False): "won't run any [hook]"; addInterface(bolForce=...): "If true, will
    run at BOL hook even if disabled" (so: not forced when the argument is false, whatever the object carried).
    addInterface(enabled=True) for an object that is disabled at that moment is not generated (the text
    "If enabled, will run at all hooks" and the implementation disagree about it).
    """
    state = {"enabled": True, "bolForce": False}  # a new Interface

    def attach(enabled, bol_force):
        if not enabled:
            state["enabled"] = False
        state["bolForce"] = bool(bol_force)

    if entry.get("reuse"):
        attach(entry["reuse"]["enabled"], entry["reuse"]["bolForce"])
    for method, flag in entry.get("pre", []):
        state[method] = bool(flag)
    attach(entry["addEnabled"], entry["addBolForce"])
    for method, flag in entry.get("post", []):
        state[method] = bool(flag)
    return state["enabled"], state["bolForce"]


def flags_before_add(entry):
    """enabled state of the object at the moment of the (final) addInterface call."""
    probe = dict(entry, addEnabled=True, addBolForce=False, post=[])
    return final_flags(probe)[0]


# ------------------------------------------------------------------------------------------------
# tight-coupling convergence of the stock TightCoupler (doc/user/physics_coupling.rst: eps = |old - new| for a scalar,
# L2 norm of the difference for a vector, max over rows of the row L2 norms for 2-D; converged when eps < tolerance)

COUPLING_KINDS = ("float", "int", "list", "list2d", "ndarray")


def coupling_initial(kind, shape=(2, 2)):
    """Start value: a scalar, a vector of shape[0] entries, or shape[0] rows of shape[1] entries."""
    rows, cols = shape
    if kind == "float":
        return 1.0
    if kind == "int":
        return 1
    if kind in ("list", "ndarray"):
        return [float(k + 1) for k in range(rows)]
    return [[float(10 * r + c + 1) for c in range(cols)] for r in range(rows)]


def coupling_step(kind, factor, tol):
    """Change applied to an entry by one coupled interaction: ``factor`` tolerances (0 = none); whole numbers for the
    int kind.  |factor| is one of 0, 0.3, 0.6, 3, 8: with up to 6 entries moving together, no norm of the change lies
    within 4 % of the tolerance (0.6*sqrt(3) = 1.04 is the closest)."""
    if kind == "int":
        if abs(factor) < 1:
            return 0
        return (int(abs(factor) * tol) + 1) * (1 if factor > 0 else -1)
    return factor * tol


def coupling_advance(kind, value, d, spread="all"):
    """Value after one coupled interaction.  spread: 'one' = a single entry moves by d; 'all' = every entry (alternating
    sign); for 2-D also 'rows' = one entry of every row, 'cols' = every entry of the first row."""
    if kind in ("float", "int"):
        return value + d
    if kind in ("list", "ndarray"):
        if spread == "one":
            return [value[0] + d] + list(value[1:])
        return [v + (d if k % 2 == 0 else -d) for k, v in enumerate(value)]
    new = [list(row) for row in value]
    for r, row in enumerate(new):
        for c in range(len(row)):
            moves = {"one": r == 0 and c == 0, "rows": c == 0, "cols": r == 0}.get(spread, True)
            if moves:
                row[c] += d if (r + c) % 2 == 0 else -d
    return new


def _l2(a, b):
    return sum((x - y) ** 2 for x, y in zip(a, b)) ** 0.5


def coupling_eps(kind, old, new):
    if kind in ("float", "int"):
        return abs(new - old)
    if kind in ("list", "ndarray"):
        return _l2(old, new)
    return max(_l2(ro, rn) for ro, rn in zip(old, new))


def coupling_other_norms(kind, old, new):
    """Classification only: what the other plausible combinations of the entry changes would give
    (largest entry change; for 2-D also the L2 combination of the row norms)."""
    if kind in ("list", "ndarray"):
        return {"max-entry": max(abs(x - y) for x, y in zip(old, new))}
    if kind == "list2d":
        rows = [_l2(ro, rn) for ro, rn in zip(old, new)]
        return {"l2-of-rows": sum(x * x for x in rows) ** 0.5,
                "max-entry": max(abs(x - y) for ro, rn in zip(old, new) for x, y in zip(ro, rn))}
    return {}


def select(stack, event, deferred_names=(), deferred_cycle=0, cycle=0, excluded=()):
    """Names of the interfaces called at ``event``, in calling order."""
    chosen = []
    for i in stack:
        if event == "BOL":
            on = i["enabled"] or i["bolForce"]  # "If true, will run at BOL hook even if disabled"
        else:
            on = i["enabled"]  # "If not [enabled], won't run any"
        if not on:
            continue
        if event == "BOL" and (i["name"] in deferred_names or i["name"] in excluded):
            continue
        if event == "BOC" and cycle < deferred_cycle and i["name"] in deferred_names:
            # "will begin normal operations on this cycle number"
            continue
        if event in ("EveryNode", "EOC", "EOL") and i["name"] in excluded:
            continue
        chosen.append(i)
    if event == "EOL":
        # "All interfaces with this flag will be run as a group after all other interfaces", "in reverse order"
        normal = [i for i in chosen if not i["reverseAtEOL"]]
        flagged = [i for i in chosen if i["reverseAtEOL"]]
        chosen = normal + flagged[::-1]
    return [i["name"] for i in chosen]


# ------------------------------------------------------------------------------------------------
# the schedule of a standard run


class Scheduler:
    """Produces the expected event list for one configuration.

    cfg keys: stack (entries), deferredNames, deferredCycle, halt (None or dict(by=name, cycle=)),
    coupling (dict(on, maxIters, skip=[cycles])), power, start (dict(cycle, node, via, owner)),
    haltStopsEvent (model the short-circuit of the remaining BOC hooks; False = documented behaviour).
    """

    def __init__(self, cfg, hist):
        self.cfg = cfg
        self.hist = hist
        self.stack = build_stack(cfg["stack"])
        self.byname = {i["name"]: i for i in self.stack}
        self.events = []
        self.state = {"cycle": 0, "node": 0}
        self.script_pos = {i["name"]: 0 for i in self.stack}
        self.values = {i["name"]: coupling_initial(i.get("valueKind", "float"), i.get("shape", (2, 2))) for i in self.stack}
        self.notes = set()  # what the coupling sequences exercised (classification only)
        self.cycles_run = []  # cycles that ran to their end
        self.left_open = set()

    # -- helpers
    def names(self, event, cycle=0, excluded=()):
        return select(self.stack, event, self.cfg["deferredNames"], self.cfg["deferredCycle"], cycle, excluded)

    def emit(self, ev, name, args, **extra):
        rec = {"ev": ev, "name": name, "args": list(args)}
        rec.update(self.state)
        rec.update(extra)
        self.events.append(rec)

    # -- the events
    def bol(self, excluded=(), reference_cycle=None):
        """Beginning of life.  Returns the set of (event, name) pairs left open for this call: the setting text
        ("will begin normal operations on this cycle number") does not say whether a deferred interface gets its
        BOL hook when the run starts at or after the activation cycle."""
        start = self.cfg["start"]
        ref = start["cycle"] if reference_cycle is None else reference_cycle
        left_open = set()
        if ref >= self.cfg["deferredCycle"]:
            left_open = {("BOL", n) for n in self.cfg["deferredNames"]}
        for name in self.names("BOL", excluded=excluded):
            self.emit("BOL", name, [])
            if start["via"] == "bol" and start["owner"] == name:
                # the first interface repositions the reactor at the restart point during its BOL hook
                self.state["cycle"] = start["cycle"]
                self.state["node"] = start["node"]
        return left_open

    def boc(self, cycle):
        halt = False
        hcfg = self.cfg.get("halt")
        for name in self.names("BOC", cycle=cycle):
            self.emit("BOC", name, [cycle])
            if hcfg and hcfg["by"] == name and hcfg["cycle"] == cycle:
                halt = True
                if self.cfg.get("haltStopsEvent"):
                    break
        return halt

    def every_node(self, cycle, node, excluded=()):
        for name in self.names("EveryNode", excluded=excluded):
            self.emit("EveryNode", name, [cycle, node])

    def eoc(self, cycle, excluded=()):
        for name in self.names("EOC", excluded=excluded):
            self.emit("EOC", name, [cycle])

    def eol(self, excluded=()):
        for name in self.names("EOL", excluded=excluded):
            self.emit("EOL", name, [])

    def coupled(self, iteration):
        """One pass over the coupled interfaces; True when every coupler reports convergence."""
        flags = []
        for name in self.names("Coupled"):
            self.emit("Coupled", name, [iteration], coupledIteration=iteration + 1)
            i = self.byname[name]
            if i.get("coupled"):
                # the interaction moves the coupled value; the coupler compares it with the value before the iteration
                kind, factors = i["valueKind"], i["factors"]
                factor = factors[self.script_pos[name] % len(factors)]
                self.script_pos[name] += 1
                old = self.values[name]
                new = coupling_advance(kind, old, coupling_step(kind, factor, i["tol"]), i.get("spread", "all"))
                self.values[name] = new
                ok = coupling_eps(kind, old, new) < i["tol"]
                flags.append(ok)
                for other, eps in coupling_other_norms(kind, old, new).items():
                    if (eps < i["tol"]) != ok:
                        self.notes.add("%s-%s-but-%s-would-%s" % (kind, "converged" if ok else "open", other, "not" if ok else "converge"))
                if not ok:
                    self.notes.add(("decreasing-" if factor < 0 else "increasing-") + ("scalar" if kind in ("float", "int") else "array"))
        return all(flags)

    def couple_node(self, cycle):
        cp = self.cfg["coupling"]
        if not cp["on"]:
            return
        if cycle not in cp["skip"]:
            for it in range(cp["maxIters"]):
                if self.coupled(it):
                    break
        # "If requested, perform tight coupling and write out database."
        self.emit("writeDB", "database", [])

    def node(self, cycle, node):
        self.state["node"] = node
        self.every_node(cycle, node)
        self.couple_node(cycle)

    # -- whole run
    def run(self):
        h, st = self.hist, self.state
        start = self.cfg["start"]
        if start["via"] == "preset":
            st["cycle"], st["node"] = start["cycle"], start["node"]
        power = self.cfg["power"]
        self.left_open = self.bol()
        first = st["cycle"]
        for c in range(first, h["nCycles"]):
            st["cycle"] = c
            if c != first:
                st["node"] = 0
            for k in ("power", "stepLength", "capacityFactor"):
                st.pop(k, None)  # not defined before the first node of a cycle
            begin = st["node"]
            st["cycleLength"] = h["cycleLengths"][c]
            st["availability"] = h["availability"][c]
            if self.boc(c):
                break
            nsteps = len(h["steps"][c])
            for n in range(begin, nsteps):
                st["power"] = h["powerFractions"][c][n] * power
                st["stepLength"] = h["steps"][c][n]
                st["capacityFactor"] = h["availability"][c] * h["powerFractions"][c][n]
                self.node(c, n)
            # "do one last node at the end using the same power as the previous node" (full power without steps)
            st["power"] = (h["powerFractions"][c][nsteps - 1] if nsteps else 1.0) * power
            st.pop("stepLength", None)  # no step follows the last node: left open
            st.pop("capacityFactor", None)
            self.node(c, nsteps)
            self.eoc(c)
            self.cycles_run.append(c)
        st.pop("power", None)
        self.eol()
        return self.events
