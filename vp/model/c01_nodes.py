"""C01 helper: an importable generic composite class (imports armi -> import only inside workers).

``GenComposite`` is a plain ``Composite`` plus the ``type`` parameter that ``setType``/``getType`` need (the
base ``Composite`` only defines ``flags``); armi's own tests use the same device (``DummyComposite``).  It
lives in a module so that pickle can find the class again.
"""
from armi import utils
from armi.reactor import composites, parameters


def _defs():
    defs = parameters.ParameterDefinitionCollection()
    with defs.createBuilder() as pb:
        pb.defParam("type", units=utils.units.UNITLESS, description="type name of a generic test composite")
    return defs


class GenComposite(composites.Composite):
    """Generic inner node of the composite model (no physics)."""

    pDefs = _defs()
