"""Independent evaluator of a blueprint document (C18).

Reads the YAML text with plain ruamel.yaml and renders the *expectation record*: what the document says the reactor is.
Never imports armi.reactor.blueprints (nor any other armi module).  Semantics implemented here are taken from the user
documentation (doc/user/inputs.rst: component fields, links ``<component>.<dimension>``, pin lattices and latticeIDs,
flags from ``flags:`` or else from the name, assemblies as bottom-to-top stacks with per-block lists, material
modifications by block and by component with '' meaning "not given", grids by lattice map or grid contents) and from the
docstrings named in the individual functions.
"""
import re

from vp.model import c18_maps as mm

# ---------------------------------------------------------------------------------------------------------------
# documented tables

# doc/user/inputs.rst "Component Types" (generated from ComponentType.TYPES / DIMENSION_NAMES)
SHAPES = {
    "circle": ("Circle", ("od", "id", "mult", "modArea")),
    "hexagon": ("Hexagon", ("op", "ip", "mult", "modArea")),
    "rectangle": ("Rectangle", ("lengthOuter", "lengthInner", "widthOuter", "widthInner", "mult", "modArea")),
    "solidrectangle": ("SolidRectangle", ("lengthOuter", "widthOuter", "mult", "modArea")),
    "square": ("Square", ("widthOuter", "widthInner", "mult", "modArea")),
    "triangle": ("Triangle", ("base", "height", "mult", "modArea")),
    "helix": ("Helix", ("od", "axialPitch", "helixDiameter", "mult", "id", "modArea")),
    "derivedshape": ("DerivedShape", ("modArea",)),
    "unshapedcomponent": ("UnshapedComponent", ("modArea",)),
}

# armi.reactor.flags: the flag names, and the documented multi-word / special conversions (fromString docstring)
FLAG_NAMES = set(
    """PRIMARY SECONDARY TERTIARY ANNULAR A B C D E HIGH MEDIUM LOW MATERIAL FUEL TEST CONTROL ULTIMATE SHUTDOWN SHIELD
    SHIELD_BLOCK SLUG REFLECTOR DRIVER IGNITER FEED STARTER BLANKET BOOSTER TARGET MOX INNER MIDDLE OUTER RADIAL AXIAL UPPER
    LOWER DUCT GRID_PLATE HANDLING_SOCKET INLET_NOZZLE PLENUM BOND LINER CLAD PIN GAP WIRE COOLANT INTERCOOLANT LOAD_PAD ACLP
    SKID VOID INTERDUCTCOOLANT DSPACERINSIDE GUIDE_TUBE FISSION_CHAMBER MODERATOR CORE_BARREL DUMMY BATCHMASSADDITION POISON
    STRUCTURE DEPLETABLE MOVEABLE""".split()
)
CONVERSIONS = [
    (r"\bGRID\s+PLATE\b", ["GRID_PLATE"]),
    (r"\bGRID\b", ["GRID_PLATE"]),
    (r"\bINLET\s+NOZZLE\b", ["INLET_NOZZLE"]),
    (r"\bNOZZLE\b", ["INLET_NOZZLE"]),
    (r"\bLOAD\s+PAD\b", ["LOAD_PAD"]),
    (r"\bHANDLING\s+SOCKET\b", ["HANDLING_SOCKET"]),
    (r"\bGUIDE\s+TUBE\b", ["GUIDE_TUBE"]),
    (r"\bFISSION\s+CHAMBER\b", ["FISSION_CHAMBER"]),
    (r"\bSOCKET\b", ["HANDLING_SOCKET"]),
    (r"\bSHIELD\s+BLOCK\b", ["SHIELD_BLOCK"]),
    (r"\bSHIELDBLOCK\b", ["SHIELD_BLOCK"]),
    (r"\bCORE\s+BARREL\b", ["CORE_BARREL"]),
    (r"\bINNERDUCT\b", ["INNER", "DUCT"]),
    (r"\bGAP1\b", ["GAP", "A"]),
    (r"\bGAP2\b", ["GAP", "B"]),
    (r"\bGAP3\b", ["GAP", "C"]),
    (r"\bGAP4\b", ["GAP", "D"]),
    (r"\bGAP5\b", ["GAP", "E"]),
    (r"\bLINER1\b", ["LINER", "A"]),
    (r"\bLINER2\b", ["LINER", "B"]),
]

# isotopicOptions.getDefaultNuclideFlags docstring: actinides U234..CM247 and lumped fission products deplete, boron,
# sodium and structural elements do not
DEFAULT_BURN = (
    ["U%d" % a for a in (234, 235, 236, 238)]
    + ["NP237", "NP238"]
    + ["PU%d" % a for a in (236, 238, 239, 240, 241, 242)]
    + ["AM241", "AM242", "AM243"]
    + ["CM%d" % a for a in range(242, 248)]
    + ["LFP%d" % a for a in (35, 38, 39, 40, 41)]
    + ["DUMP1", "DUMP2"]
)
DEFAULT_INERT = ["B10", "B11", "ZR", "C", "SI", "V", "CR", "MN", "FE", "NI", "MO", "W", "NA", "HE"]

# doc/user/inputs.rst table "Available Modifications"
MATERIAL_MODS = {
    "UZr": {"U235_wt_frac", "ZR_wt_frac"},
    "UraniumOxide": {"U235_wt_frac", "TD_frac"},
    "UO2": {"U235_wt_frac", "TD_frac"},
    "B4C": {"B10_wt_frac", "TD_frac", "theoretical_density"},
}

LINK = re.compile(r"^\s*(.+?)\s*\.\s*(.+?)\s*$")


class Inconsistent(Exception):
    """The document contradicts itself (the evaluator cannot give an expectation; armi must refuse it)."""


def flags_from_string(text, strict=False):
    """Documented conversion (Flags.fromString docstring): upper-case, special phrases, then words; a word that is not a
    flag name is retried with its digits removed; unknown words are ignored (names) or an error (``flags:`` entries)."""
    s = str(text).upper()
    out = set()
    for pattern, names in CONVERSIONS:
        if re.search(pattern, s):
            s = re.sub(pattern, "", s)
            out.update(names)
    for word in s.split():
        if word in FLAG_NAMES:
            out.add(word)
            continue
        bare = "".join(c for c in word if not c.isdigit())
        if not bare:
            continue
        if bare in FLAG_NAMES:
            out.add(bare)
        elif strict:
            raise Inconsistent("unknown flag word %r" % word)
    return sorted(out)


def _load(text):
    import ruamel.yaml

    y = ruamel.yaml.YAML(typ="safe", pure=True)
    return y.load(text)


def _is_number(x):
    return isinstance(x, (int, float)) and not isinstance(x, bool)


# ---------------------------------------------------------------------------------------------------------------
# grids


def grid_kind(geom, symmetry):
    full = symmetry.split()[0] == "full"
    if geom == "cartesian":
        return "cart"
    if geom == "hex_corners_up" and full:
        return "hexFullTips"
    if full:
        return "hexFullFlat"
    return "hexThird"


def grid_contents(g):
    """{(i, j): specifier} of one grid blueprint mapping (placeholders dropped)."""
    geom = g.get("geom", "hex")
    symmetry = g.get("symmetry", "third periodic")
    if g.get("grid contents"):
        return {(int(k[0]), int(k[1])): str(v) for k, v in g["grid contents"].items()}
    if g.get("lattice map"):
        kind = grid_kind(geom, symmetry)
        full = mm.read_rows(kind, mm.tokenize(g["lattice map"]))
        di = dj = 0
        if kind == "cart" and symmetry.split()[0] == "full":
            xs = [i for (i, _j) in full]
            ys = [j for (_i, j) in full]
            di, dj = -((max(xs) - min(xs) + 1) // 2), -((max(ys) - min(ys) + 1) // 2)
        return {(i + di, j + dj): v for (i, j), v in full.items() if v != mm.PLACEHOLDER}
    return {}


# ---------------------------------------------------------------------------------------------------------------
# blocks and components


def _block_components(bdict):
    return [(name, c) for name, c in bdict.items() if isinstance(c, dict) and "shape" in c]


def _resolve(comps, cname, dim, seen=()):
    """Cold value of ``cname.dim`` with links resolved textually; returns (value, chain of links followed)."""
    if cname not in comps:
        raise Inconsistent("link to unknown component %r" % cname)
    raw = comps[cname].get(dim)
    if isinstance(raw, str):
        m = LINK.match(raw)
        if not m:
            raise Inconsistent("bad link %r" % raw)
        key = (m.group(1), m.group(2))
        if key in seen:
            raise Inconsistent("circular link")
        return _resolve(comps, key[0], key[1], seen + (key,))
    return raw


def evaluate_block(bname, bdict, grids, modifications=None):
    """Expectation for one block design; ``modifications`` = (byBlock, byComponent) for one axial position."""
    comps = dict(_block_components(bdict))
    gname = bdict.get("grid name")
    cells = None
    if gname is not None:
        if gname not in grids:
            raise Inconsistent("block %r names unknown grid %r" % (bname, gname))
        cells = grid_contents(grids[gname])
    by_block, by_comp = modifications or ({}, {})
    for cname in by_comp:
        if by_comp[cname] and cname not in comps:
            raise Inconsistent("by-component modification for %r which is not in block %r" % (cname, bname))
    out = {
        "gridIntSpecs": bool(gname is not None and any(isinstance(v, int) and not isinstance(v, bool) for v in (grids[gname].get("grid contents") or {}).values())),
        "name": bname,
        "flags": flags_from_string(bdict["flags"], strict=True) if bdict.get("flags") else flags_from_string(bname),
        "gridName": gname,
        "axialTarget": bdict.get("axial expansion target component"),
        "components": [],
    }
    # pass 1: multiplicities given by the pin lattice
    lattice_mult = {}
    lattice_cells = {}
    for cname, c in comps.items():
        ids = c.get("latticeIDs")
        if cells is None or ids is None:
            continue
        want = {str(x) for x in ids}
        mine = sorted(ij for ij, spec in cells.items() if spec in want)
        if not mine:
            continue
        lattice_cells[cname] = mine
        mult = c.get("mult")
        if isinstance(mult, str):
            raise Inconsistent("linked mult together with lattice positions")
        if mult and float(mult) != 1.0 and float(mult) != len(mine):
            raise Inconsistent("mult %r conflicts with %d lattice positions" % (mult, len(mine)))
        lattice_mult[cname] = len(mine)

    def final_mult(cname, seen=()):
        if cname in lattice_mult:
            return lattice_mult[cname]
        raw = comps[cname].get("mult")
        if isinstance(raw, str):
            m = LINK.match(raw)
            if not m or m.group(2) != "mult" or m.group(1) in seen or m.group(1) not in comps:
                raise Inconsistent("bad mult link %r" % raw)
            return final_mult(m.group(1), seen + (cname,))
        return raw

    valid_block_mods = set()
    for cname, c in comps.items():
        valid_block_mods |= MATERIAL_MODS.get(str(c.get("material")), set())
    for mod in by_block:
        if mod not in valid_block_mods:
            raise Inconsistent("no component of block %r accepts modification %r" % (bname, mod))
    for cname, c in comps.items():
        key = str(c["shape"]).strip().lower()
        if key not in SHAPES:
            raise Inconsistent("unknown shape %r" % c["shape"])
        cls, dimnames = SHAPES[key]
        dims = {}
        for d in dimnames:
            if d == "mult":
                continue
            raw = c.get(d)
            if isinstance(raw, str):
                m = LINK.match(raw)
                dims[d] = {"link": [m.group(1), m.group(2)], "cold": _resolve(comps, cname, d)}
            else:
                dims[d] = None if raw is None else float(raw)
        rawmult = c.get("mult")
        accepted = MATERIAL_MODS.get(str(c.get("material")), set())
        mods = {k: v for k, v in by_block.items()}
        for k, v in by_comp.get(cname, {}).items():
            if k not in accepted:
                raise Inconsistent("component %r does not accept modification %r" % (cname, k))
            mods[k] = v
        out["components"].append(
            {
                "name": cname,
                "shape": cls,
                "material": c.get("material"),
                "Tinput": None if c.get("Tinput") is None else float(c["Tinput"]),
                "Thot": None if c.get("Thot") is None else float(c["Thot"]),
                "explicitFlags": flags_from_string(c["flags"], strict=True) if c.get("flags") else None,
                "nameFlags": flags_from_string(cname),
                "mult": final_mult(cname),
                "multLink": LINK.match(rawmult).group(1) if isinstance(rawmult, str) else None,
                "dims": dims,
                "cells": lattice_cells.get(cname),
                "isotopics": c.get("isotopics"),
                "mods": {k: v for k, v in mods.items() if k in accepted},
            }
        )
    return out


# ---------------------------------------------------------------------------------------------------------------
# the whole document


def _given(v):
    """Material modification entries that are '' or null are "not given" (doc/user/inputs.rst)."""
    return v != "" and v is not None


def evaluate(text):
    y = _load(text)
    blocks = y.get("blocks") or {}
    block_name_by_id = {id(b): name for name, b in blocks.items()}
    grids = y.get("grids") or {}
    rec = {"designs": {}, "specifiers": {}}
    # nuclide flags
    nf = y.get("nuclide flags")
    if nf:
        rec["burn"] = sorted(k for k, v in nf.items() if v.get("burn"))
        rec["expandTo"] = {k: list(v["expandTo"]) for k, v in nf.items() if v.get("expandTo")}
        rec["allFlagged"] = sorted(nf)
    else:
        rec["burn"] = list(DEFAULT_BURN)
        rec["expandTo"] = {}
        rec["allFlagged"] = sorted(DEFAULT_BURN + DEFAULT_INERT)
    # custom isotopics
    rec["isotopics"] = {}
    for name, iso in (y.get("custom isotopics") or {}).items():
        items = {k: float(v) for k, v in iso.items() if k not in ("input format", "density")}
        rec["isotopics"][name] = {"format": iso["input format"], "density": iso.get("density"), "items": items}
    # assemblies
    assems = y.get("assemblies") or {}
    for aname, a in assems.items():
        if aname in ("heights", "axial mesh points"):
            continue
        bl = a["blocks"]
        n = len(bl)
        mm_ = a.get("material modifications") or {}
        lists = {"heights": a["height"], "mesh points": a["axial mesh points"], "xs types": a["xs types"]}
        for k, v in mm_.items():
            if k == "by component":
                for cname, cm in v.items():
                    for mk, mv in cm.items():
                        lists["by component %s %s" % (cname, mk)] = mv
            else:
                lists["mat mod " + k] = v
        for k, v in lists.items():
            if len(v) != n:
                raise Inconsistent("assembly %r has %d blocks but %d %s" % (aname, n, len(v), k))
        design = {
            "name": aname,
            "specifier": a["specifier"],
            "flags": flags_from_string(a["flags"], strict=True) if a.get("flags") else flags_from_string(aname),
            "nozzleType": a.get("nozzleType"),
            "blocks": [],
        }
        for pos, b in enumerate(bl):
            bname = block_name_by_id.get(id(b))
            if bname is None:
                raise Inconsistent("assembly %r position %d is not an alias of a block design" % (aname, pos))
            by_block = {k: v[pos] for k, v in mm_.items() if k != "by component" and _given(v[pos])}
            by_comp = {}
            for cname, cm in (mm_.get("by component") or {}).items():
                by_comp[cname] = {k: v[pos] for k, v in cm.items() if _given(v[pos])}
            e = evaluate_block(bname, b, grids, (by_block, by_comp))
            e["height"] = float(a["height"][pos])
            e["xsType"] = str(a["xs types"][pos])
            e["axMesh"] = int(a["axial mesh points"][pos])
            design["blocks"].append(e)
        rec["designs"][aname] = design
        if str(a["specifier"]) in rec["specifiers"]:
            raise Inconsistent("specifier %r names two assembly designs" % a["specifier"])
        rec["specifiers"][str(a["specifier"])] = aname
    # systems / core
    systems = y.get("systems") or {}
    rec["systems"] = {}
    for sname, s in systems.items():
        typ = s.get("type", "core")
        g = grids.get(s.get("grid name"))
        o = s.get("origin") or {}
        entry = {"type": typ, "origin": [float(o.get("x", 0.0)), float(o.get("y", 0.0)), float(o.get("z", 0.0))], "grid": None}
        if g is not None:
            contents = grid_contents(g)
            lp = g.get("lattice pitch")
            entry["grid"] = {
                "geom": g.get("geom", "hex"),
                "symmetry": g.get("symmetry", "third periodic"),
                "pitch": None if not lp else [float(lp.get("x", 0.0)), float(lp.get("y", 0.0))],
                "fromMap": bool(g.get("lattice map")) and not g.get("grid contents"),
            }
            locs = {}
            for ij, spec in contents.items():
                if spec not in rec["specifiers"]:
                    raise Inconsistent("grid names unknown specifier %r" % spec)
                locs[ij] = rec["specifiers"][spec]
            entry["locations"] = locs
        rec["systems"][sname] = entry
    return rec


def block_pitch(block_expect):
    """Outer pitch of a block from its largest outer dimension (cold; the generator's outer component is a fluid at
    Tinput == Thot, so cold == hot)."""
    best = None
    for c in block_expect["components"]:
        d = c["dims"]

        def val(x):
            return x["cold"] if isinstance(x, dict) else x

        if c["shape"] == "Hexagon" and d.get("op") is not None:
            cand = (val(d["op"]), val(d["op"]))
        elif c["shape"] == "Rectangle" and d.get("lengthOuter") is not None:
            cand = (val(d["lengthOuter"]), val(d["widthOuter"]))
        elif c["shape"] == "Square" and d.get("widthOuter") is not None:
            cand = (val(d["widthOuter"]), val(d["widthOuter"]))
        else:
            continue
        if best is None or cand[0] > best[0]:
            best = cand
    return best
