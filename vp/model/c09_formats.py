"""Declarative record layouts of the simple CCCC formats (C09), written from the record documentation of each armi
module / the CCCC-IV descriptions they quote - NOT from the ``readWrite`` code.

For every format:

* ``gen(case)``        -> (H, D): header values and data arrays expanded from the case (JSON) with ``Fill``;
* ``layout(H, D)``     -> [(record name, [reference fields in stream order])]: which records exist (presence
                          conditions as documented) and what they hold;
* ``build(H, D)``      -> a fresh armi data container holding exactly H and D (imports armi lazily);
* ``compare(c, H, D)`` -> names of the fields of a container read back that differ from H/D (only fields whose
                          record the layout says is present).

Numpy arrays in D use the shapes/dtypes the armi containers declare.
"""
import numpy as np

from vp.model.c09_ref import Fill, block_bounds, scalar_kind, valid_nblok


# field constructors (stream ordered values)
def I(v):
    return {"t": "int", "v": int(v)}


def F(v):
    return {"t": "float", "v": float(v)}


def Dd(v):
    return {"t": "double", "v": float(v)}


def S(v, n):
    return {"t": "str", "v": v, "n": n}


def LI(vs):
    return {"t": "list", "of": "int", "v": [int(x) for x in vs]}


def LF(vs):
    return {"t": "list", "of": "float", "v": [float(x) for x in vs]}


def LD(vs):
    return {"t": "list", "of": "double", "v": [float(x) for x in vs]}


def LS(vs, n):
    return {"t": "list", "of": "str", "v": list(vs), "n": n}


def MAP(keys, H):
    return {"t": "map", "keys": list(keys), "v": [H[k] for k in keys]}


def _eq(a, b):
    a = np.asarray(a)
    b = np.asarray(b)
    if a.shape != b.shape:
        return False
    if a.dtype.kind in "US" or b.dtype.kind in "US":
        return [str(x) for x in a.ravel()] == [str(x) for x in b.ravel()]
    return bool(np.array_equal(a, b))


def _meta_diff(meta, H, keys, prefix="metadata."):
    bad = []
    for k in keys:
        got = meta[k]
        want = H[k]
        if isinstance(want, str):
            ok = isinstance(got, str) and got == want
        elif isinstance(want, (list, tuple, np.ndarray)):
            ok = got is not None and _eq(got, want)
        elif isinstance(want, bool):
            ok = got is want
        elif isinstance(want, int):
            ok = got is not None and not isinstance(got, bool) and int(got) == want and float(got) == float(want)
        else:
            ok = got is not None and float(got) == float(want)
        if not ok:
            bad.append(prefix + k)
    return bad


def _filler(case):
    return Fill(case["seed"], case.get("pal32", ()), case.get("pal64", ()))


# =====================================================================================================
# GEODST  (CCCC-IV; record presence as listed in the geodst module documentation)

GEODST_1D = ("IGOM NZONE NREG NZCL NCINTI NCINTJ NCINTK NINTI NINTJ NINTK IMB1 IMB2 JMB1 JMB2 KMB1 KMB2 NBS NBCS NIBCS "
             "NZWBB NTRIAG NRASS NTHPT NGOP1 NGOP2 NGOP3 NGOP4").split()
GEODST_IGOM = [0, 1, 2, 3, 6, 7, 8, 9, 10, 11, 12, 13, 14, 15, 16, 17, 18]


def geodst_dim(igom):
    if igom == 0:
        return 0
    if igom <= 3:
        return 1
    if igom <= 11:
        return 2
    return 3


def geodst_gen(case):
    f = _filler(case)
    igom = case["igom"]
    dim = geodst_dim(igom)
    nci = case["nc"][0] if dim >= 1 else 1
    ncj = case["nc"][1] if dim >= 2 else 1
    nck = case["nc"][2] if dim >= 3 else 1
    fmax = case["fine"]
    ii = f.ints(nci, 1, fmax)
    jj = f.ints(ncj, 1, fmax) if dim >= 2 else [1]
    kk = f.ints(nck, 1, fmax) if dim >= 3 else [1]
    H = {k: 0 for k in GEODST_1D}
    nreg, nzone = case["nreg"], case["nzone"]
    H.update(IGOM=igom, NZONE=nzone, NREG=nreg, NZCL=f.i(0, 3), NCINTI=nci, NCINTJ=ncj, NCINTK=nck,
             NINTI=sum(ii), NINTJ=sum(jj), NINTK=sum(kk), NBS=case["nbs"], NBCS=case["nbcs"], NIBCS=case["nibcs"],
             NZWBB=case["nzwbb"], NRASS=case["nrass"], NTRIAG=f.i(0, 2), NTHPT=f.i(0, 2))
    for k in ("IMB1", "IMB2", "JMB1", "JMB2", "KMB1", "KMB2"):
        H[k] = f.i(1, 5)
    for k in ("NGOP1", "NGOP2", "NGOP3", "NGOP4"):
        H[k] = f.i(0, 200)
    H["label"] = case["label"]

    def mesh(n):
        x = [0.0]
        for _ in range(n):
            x.append(x[-1] + abs(f.f64()) % 97.0 + 0.125)
        return np.array(x)

    D = {
        "xmesh": mesh(nci), "ymesh": mesh(ncj), "zmesh": mesh(nck),
        "iintervals": np.array(ii), "jintervals": np.array(jj), "kintervals": np.array(kk),
        "regionVolumes": np.array(f.f32s(nreg)), "bucklings": np.array(f.f32s(H["NBS"])),
        "boundaryConstants": np.array(f.f32s(H["NBCS"])),
        "internalBlackBoundaryConstants": np.array(f.f32s(H["NIBCS"])),
        "zonesWithBlackAbs": np.array(f.ints(H["NZWBB"], 1, nzone), dtype=int),
        "zoneClassifications": np.array(f.ints(nzone, 0, max(1, H["NZCL"])), dtype=int),
        "regionZoneNumber": np.array(f.ints(nreg, 1, nzone), dtype=int),
        "coarseMeshRegions": np.array(f.ints(nci * ncj * nck, 0, nreg), dtype=np.int16).reshape(nci, ncj, nck),
        "fineMeshRegions": np.array(f.ints(H["NINTI"] * H["NINTJ"] * H["NINTK"], 0, nreg), dtype=np.int16).reshape(
            H["NINTI"], H["NINTJ"], H["NINTK"]),
    }
    return H, D


def geodst_present(H):
    """Which data fields the documentation says are on the file for this header."""
    ig = H["IGOM"]
    p = set()
    if 1 <= ig <= 3:
        p |= {"xmesh", "iintervals"}
    elif 6 <= ig <= 11:
        p |= {"xmesh", "ymesh", "iintervals", "jintervals"}
    elif ig >= 12:
        p |= {"xmesh", "ymesh", "zmesh", "iintervals", "jintervals", "kintervals"}
    if ig > 0 or H["NBS"] > 0:
        p |= {"regionVolumes", "bucklings", "boundaryConstants", "internalBlackBoundaryConstants", "zonesWithBlackAbs",
              "zoneClassifications", "regionZoneNumber"}
    if ig > 0 and H["NRASS"] == 0:
        p.add("coarseMeshRegions")
    if ig > 0 and H["NRASS"] == 1:
        p.add("fineMeshRegions")
    return p


def geodst_layout(H, D):
    recs = [("file-id", [S(H["label"], 28)]), ("1D-specifications", [I(H[k]) for k in GEODST_1D])]
    ig = H["IGOM"]
    if 1 <= ig <= 3:  # slab, cylinder, sphere
        recs.append(("2D-1d-mesh", [LD(D["xmesh"]), LI(D["iintervals"])]))
    elif 6 <= ig <= 11:
        recs.append(("3D-2d-mesh", [LD(D["xmesh"]), LD(D["ymesh"]), LI(D["iintervals"]), LI(D["jintervals"])]))
    elif ig >= 12:
        recs.append(("4D-3d-mesh", [LD(D["xmesh"]), LD(D["ymesh"]), LD(D["zmesh"]), LI(D["iintervals"]),
                                    LI(D["jintervals"]), LI(D["kintervals"])]))
    if ig > 0 or H["NBS"] > 0:
        recs.append(("5D-geometry-data", [LF(D["regionVolumes"]), LF(D["bucklings"]), LF(D["boundaryConstants"]),
                                          LF(D["internalBlackBoundaryConstants"]), LI(D["zonesWithBlackAbs"]),
                                          LI(D["zoneClassifications"]), LI(D["regionZoneNumber"])]))
    if ig > 0 and H["NRASS"] == 0:
        m = D["coarseMeshRegions"]
        for k in range(H["NCINTK"]):
            recs.append(("6D-coarse-mesh-regions", [LI(m[:, :, k].flatten(order="F"))]))
    if ig > 0 and H["NRASS"] == 1:
        m = D["fineMeshRegions"]
        for k in range(H["NINTK"]):
            recs.append(("7D-fine-mesh-regions", [LI(m[:, :, k].flatten(order="F"))]))
    return recs


def geodst_build(H, D):
    from armi.nuclearDataIO.cccc import geodst

    g = geodst.GeodstData()
    for k in ["label"] + GEODST_1D:
        g.metadata[k] = H[k]
    # every attribute is filled consistently with the header; the header decides what goes on the file
    for k in D:
        setattr(g, k, D[k].copy())
    return g


def geodst_compare(c, H, D):
    bad = _meta_diff(c.metadata, H, ["label"] + GEODST_1D)
    for k in sorted(geodst_present(H)):
        got = getattr(c, k)
        if got is None or not _eq(got, D[k]):
            bad.append(k)
    return bad


# =====================================================================================================
# DIF3D control file (dif3d module documentation)

DIF3D_2D = ("IPROBT ISOLNT IXTRAP MINBSZ NOUTMX IRSTRT LIMTIM NUPMAX IOSAVE IOMEG1 INRMAX NUMORP IRETRN IEDF1 IEDF2 "
            "IEDF3 IEDF4 IEDF5 IEDF6 IEDF7 IEDF8 IEDF9 IEDF10 NOUTBQ I0FLUX NOEDIT NOD3ED ISRHED NSN NSWMAX NAPRX NAPRXZ "
            "NFMCMX NXYSWP NZSWP ISYMF NCMRZS ISEXTR NPNO NXTR IOMEG2 IFULL NVFLAG ISIMPL IWNHFL IPERT IHARM").split()
DIF3D_3D = "EPS1 EPS2 EPS3 EFFK FISMIN PSINRM POWIN SIGBAR EFFKQ EPSWP".split() + ["DUM%d" % e for e in range(1, 21)]
DIF3D_STR = ["HNAME", "HUSE1", "HUSE2"]
DIF3D_TITLES = ["TITLE%d" % i for i in range(11)]


def dif3d_gen(case):
    f = _filler(case)
    H = {"HNAME": case["label"][:8].rstrip(), "HUSE1": f.s(8), "HUSE2": f.s(8), "VERSION": f.i(0, 9)}
    for t in DIF3D_TITLES:
        H[t] = f.s(8)
    H["MAXSIZ"] = f.i(0, 10**8)
    H["MAXBLK"] = f.i(0, 10**8)
    H["IPRINT"] = f.i(0, 3)
    two = {k: f.i(-3, 999) for k in DIF3D_2D}
    two["NUMORP"] = case["numorp"]
    two["NCMRZS"] = case["ncmrzs"]
    three = {k: f.f64() for k in DIF3D_3D}
    four = {"OMEGA%d" % e: f.f64() for e in range(1, case["numorp"] + 1)}
    five = {"ZCMRC%d" % e: f.f64() for e in range(1, case["ncmrzs"] + 1)}
    five.update({"NZINTS%d" % e: f.i(1, 50) for e in range(1, case["ncmrzs"] + 1)})
    return H, {"twoD": two, "threeD": three, "fourD": four, "fiveD": five}


def dif3d_layout(H, D):
    recs = [
        ("file-id", [S(H[k], 8) for k in DIF3D_STR] + [I(H["VERSION"])]),
        ("1D-title", [S(H[k], 8) for k in DIF3D_TITLES] + [I(H["MAXSIZ"]), I(H["MAXBLK"]), I(H["IPRINT"])]),
        ("2D-integer-control", [I(D["twoD"][k]) for k in DIF3D_2D]),
        ("3D-float-control", [Dd(D["threeD"][k]) for k in DIF3D_3D]),
    ]
    n = D["twoD"]["NUMORP"]
    if n > 0:
        recs.append(("4D-overrelaxation", [Dd(D["fourD"]["OMEGA%d" % e]) for e in range(1, n + 1)]))
    n = D["twoD"]["NCMRZS"]
    if n > 0:
        recs.append(("5D-rebalance-mesh", [Dd(D["fiveD"]["ZCMRC%d" % e]) for e in range(1, n + 1)]
                     + [I(D["fiveD"]["NZINTS%d" % e]) for e in range(1, n + 1)]))
    return recs


def dif3d_build(H, D):
    from armi.nuclearDataIO.cccc import dif3d

    c = dif3d.Dif3dData()
    for k, v in H.items():
        c.metadata[k] = v
    c.twoD = dict(D["twoD"])
    c.threeD = dict(D["threeD"])
    c.fourD = dict(D["fourD"]) if D["fourD"] else None
    c.fiveD = dict(D["fiveD"]) if D["fiveD"] else None
    return c


def dif3d_compare(c, H, D):
    bad = _meta_diff(c.metadata, H, list(H))
    for name in ("twoD", "threeD"):
        got = getattr(c, name)
        if list(got.keys()) != list(D[name].keys()) or any(got[k] != v or type(got[k]) is not type(v) for k, v in D[name].items()):
            bad.append(name)
    for name in ("fourD", "fiveD"):
        got = getattr(c, name)
        if D[name]:
            if got is None or dict(got) != D[name]:
                bad.append(name)
    return bad


# =====================================================================================================
# LABELS (structure table in the labels module docstring)

LABELS_1D = ("numZones numRegions numAreas numRegionAreaAssignments numHalfHeightsDirection1 numHalfHeightsDirection2 "
             "numNuclideSets numZoneAliases numTrianglesPerHex numHexagonalRings numControlRodChannels numControlRodBanks "
             "numAxialFineMeshBins maxControlRodBankTimes maxControlRodsPerBank maxControlRodsMeshes maxControlRodPieces "
             "maxControlRodChannels numBurnupDependentIsotopes maxBurnupDependentGroups maxBurnupPolynomialOrder "
             "modelDimensions").split()
LABELS_LISTS = ["zoneLabels", "regionLabels", "areaLabels", "regionAreaAssignments", "halfHeightsDirection1",
                "extrapolationDistance1", "halfHeightsDirection2", "extrapolationDistance2", "nuclideSetLabels",
                "aliasZoneLabels"]


def labels_gen(case):
    f = _filler(case)
    H = {"hname": case["label"][:8].rstrip(), "huse": f.s(8), "huse2": f.s(8), "version": f.i(0, 5)}
    for k in LABELS_1D:
        H[k] = 0
    n = case["n"]
    H.update(numZones=n[0], numRegions=n[1], numAreas=n[2], numRegionAreaAssignments=n[3], numHalfHeightsDirection1=n[4],
             numHalfHeightsDirection2=n[5], numNuclideSets=n[6], numZoneAliases=n[7], numTrianglesPerHex=f.i(0, 6),
             numHexagonalRings=f.i(0, 20), modelDimensions=f.i(0, 3), numAxialFineMeshBins=f.i(0, 9))
    H["numControlRodBanks"] = case["banks"]
    H["numBurnupDependentIsotopes"] = case["burnup"][0]
    H["maxBurnupDependentGroups"] = case["burnup"][1]
    H["maxBurnupPolynomialOrder"] = case["burnup"][2]
    H["dummy"] = [f.i(0, 9), f.i(0, 9)]
    D = {
        "zoneLabels": f.strs(n[0], 8), "regionLabels": f.strs(n[1], 8), "areaLabels": f.strs(n[2], 8),
        "regionAreaAssignments": f.strs(n[3], 8),
        "halfHeightsDirection1": f.f32s(n[4]), "extrapolationDistance1": f.f32s(n[4]),
        "halfHeightsDirection2": f.f32s(n[5]), "extrapolationDistance2": f.f32s(n[5]),
        "nuclideSetLabels": f.strs(n[6], 8), "aliasZoneLabels": f.strs(n[7], 8),
    }
    return H, D


def labels_unsupported(H):
    """Records the module documents as not implemented (NotImplementedError)."""
    return (H["numControlRodBanks"] > 0 or H["numBurnupDependentIsotopes"] > 0 or H["maxBurnupDependentGroups"] > 0
            or H["maxBurnupPolynomialOrder"] > 0)


def labels_present(H):
    p = {"zoneLabels", "regionLabels", "areaLabels", "regionAreaAssignments"}
    if H["numHalfHeightsDirection1"] > 0 or H["numHalfHeightsDirection2"] > 0:
        p |= {"halfHeightsDirection1", "extrapolationDistance1", "halfHeightsDirection2", "extrapolationDistance2"}
    if H["numNuclideSets"] > 1:
        p.add("nuclideSetLabels")
    if H["numZoneAliases"] > 0:
        p.add("aliasZoneLabels")
    return p


def labels_layout(H, D):
    recs = [
        ("file-id", [S(H["hname"], 8), S(H["huse"], 8), S(H["huse2"], 8), I(H["version"])]),
        ("1D-specifications", [I(H[k]) for k in LABELS_1D] + [LI(H["dummy"])]),
        ("2D-label-and-area", [LS(D["zoneLabels"], 8), LS(D["regionLabels"], 8), LS(D["areaLabels"], 8),
                               LS(D["regionAreaAssignments"], 8)]),
    ]
    if H["numHalfHeightsDirection1"] > 0 or H["numHalfHeightsDirection2"] > 0:
        recs.append(("3D-transverse-distances", [LF(D["halfHeightsDirection1"]), LF(D["extrapolationDistance1"]),
                                                 LF(D["halfHeightsDirection2"]), LF(D["extrapolationDistance2"])]))
    if H["numNuclideSets"] > 1:
        recs.append(("4D-nuclide-set-labels", [LS(D["nuclideSetLabels"], 8)]))
    if H["numZoneAliases"] > 0:
        recs.append(("5D-alias-zone-labels", [LS(D["aliasZoneLabels"], 8)]))
    return recs


def labels_build(H, D):
    from armi.nuclearDataIO.cccc import labels

    c = labels.LabelsData()
    for k, v in H.items():
        c.metadata[k] = list(v) if isinstance(v, list) else v
    for k in D:
        setattr(c, k, list(D[k]))
    return c


def labels_compare(c, H, D):
    bad = _meta_diff(c.metadata, H, list(H))
    for k in sorted(labels_present(H)):
        if not _eq(getattr(c, k), D[k]):
            bad.append(k)
    return bad


# =====================================================================================================
# PWDINT (CCCC-IV)

PWDINT_1D = "TIME POWER VOL NINTI NINTJ NINTK NCY NBLOK".split()


def pwdint_gen(case):
    f = _filler(case)
    ni, nj, nk = case["n"]
    blocks = valid_nblok(nj)
    H = {"hname": case["label"][:8].rstrip(), "huse": f.s(6), "huse2": f.s(6), "version": f.i(0, 10**6), "mult": f.i(1, 2),
         "TIME": f.f32(), "POWER": f.f32(), "VOL": f.f32(), "NINTI": ni, "NINTJ": nj, "NINTK": nk, "NCY": f.i(0, 99),
         "NBLOK": blocks[case["blk"] % len(blocks)]}
    D = {"powerDensity": np.array(f.f32s(ni * nj * nk), dtype=np.float32).reshape(ni, nj, nk)}
    return H, D


def pwdint_layout(H, D):
    recs = [("file-id", [S(H["hname"], 8), S(H["huse"], 6), S(H["huse2"], 6), I(H["version"]), I(H["mult"])]),
            ("1D-specifications", [MAP(PWDINT_1D, H)])]
    p = D["powerDensity"]
    for k in range(H["NINTK"]):
        for m in range(1, H["NBLOK"] + 1):
            jl, ju = block_bounds(m, H["NINTJ"], H["NBLOK"])
            recs.append(("2D-power-density", [LF(p[:, jl - 1 : ju, k].flatten(order="F"))]))
    return recs


def pwdint_build(H, D):
    from armi.nuclearDataIO.cccc import pwdint

    c = pwdint.PwdintData()
    for k, v in H.items():
        c.metadata[k] = v
    c.powerDensity = D["powerDensity"].copy()
    return c


def pwdint_compare(c, H, D):
    bad = _meta_diff(c.metadata, H, list(H))
    if not _eq(c.powerDensity, D["powerDensity"]):
        bad.append("powerDensity")
    return bad


# =====================================================================================================
# RTFLUX / ATFLUX (CCCC-IV)

RTFLUX_1D = "NDIM NGROUP NINTI NINTJ NINTK ITER EFFK POWER NBLOK".split()


def rtflux_gen(case):
    f = _filler(case)
    ndim = case["ndim"]
    ni, nj, nk = case["n"]
    if ndim < 3:
        nk = 1
    ng = case["ng"]
    blocks = valid_nblok(nj)
    H = {"label": case["label"], "NDIM": ndim, "NGROUP": ng, "NINTI": ni, "NINTJ": nj, "NINTK": nk, "ITER": f.i(0, 500),
         "EFFK": f.f32(), "POWER": f.f32(), "NBLOK": blocks[case["blk"] % len(blocks)], "_adjoint": bool(case["adjoint"])}
    D = {"groupFluxes": np.array(f.f64s(ni * nj * nk * ng)).reshape(ni, nj, nk, ng)}
    return H, D


def rtflux_layout(H, D):
    recs = [("file-id", [S(H["label"], 28)]), ("1D-specifications", [MAP(RTFLUX_1D, H)])]
    ng = H["NGROUP"]
    fl = D["groupFluxes"]
    for g in range(ng):
        ge = ng - g - 1 if H["_adjoint"] else g  # ATFLUX holds the groups in reversed order
        for k in range(H["NINTK"]):
            for m in range(1, H["NBLOK"] + 1):
                jl, ju = block_bounds(m, H["NINTJ"], H["NBLOK"])
                recs.append(("3D-multi-dimensional-flux", [LD(fl[:, jl - 1 : ju, k, ge].flatten(order="F"))]))
    return recs


def rtflux_build(H, D):
    from armi.nuclearDataIO.cccc import rtflux

    c = rtflux.RtfluxData()
    for k, v in H.items():
        if not k.startswith("_"):
            c.metadata[k] = v
    c.groupFluxes = D["groupFluxes"].copy()
    return c


def rtflux_compare(c, H, D):
    bad = _meta_diff(c.metadata, H, [k for k in H if not k.startswith("_")])
    if not _eq(c.groupFluxes, D["groupFluxes"]):
        bad.append("groupFluxes")
    return bad


# =====================================================================================================
# RZFLUX (CCCC-IV)

RZFLUX_1D = "TIME POWER VOL EFFK EIVS DKDS TNL TNA TNSL TNBL TNBAL TNCRA X1 X2 X3 NBLOK ITPS NZONE NGROUP NCY".split()


def rzflux_gen(case):
    f = _filler(case)
    nz, ng = case["nz"], case["ng"]
    blocks = valid_nblok(nz)
    H = {"label": case["label"]}
    for k in RZFLUX_1D:
        H[k] = f.f32() if scalar_kind(k) == "float" else f.i(0, 99)
    H.update(NBLOK=blocks[case["blk"] % len(blocks)], ITPS=f.i(0, 3), NZONE=nz, NGROUP=ng)
    D = {"groupFluxes": np.array(f.f32s(ng * nz), dtype=np.float32).reshape(ng, nz)}
    return H, D


def rzflux_layout(H, D):
    recs = [("file-id", [S(H["label"], 28)]), ("1D-specifications", [MAP(RZFLUX_1D, H)])]
    for m in range(1, H["NBLOK"] + 1):
        jl, ju = block_bounds(m, H["NZONE"], H["NBLOK"])
        recs.append(("2D-zone-flux", [LF(D["groupFluxes"][:, jl - 1 : ju].flatten(order="F"))]))
    return recs


def rzflux_build(H, D):
    from armi.nuclearDataIO.cccc import rzflux

    c = rzflux.RzfluxData()
    for k, v in H.items():
        c.metadata[k] = v
    c.groupFluxes = D["groupFluxes"].copy()
    return c


def rzflux_compare(c, H, D):
    bad = _meta_diff(c.metadata, H, list(H))
    if c.groupFluxes is None or not _eq(c.groupFluxes, D["groupFluxes"]):
        bad.append("groupFluxes")
    return bad


# =====================================================================================================
# FIXSRC (fixsrc module: gamma fixed source, file control written by the class itself)

FIXSRC_1D = "itype ndim ngroup ninti nintj nintk idists ndcomp nscomp nedgi nedgj nedjk nblok".split()


def fixsrc_gen(case):
    f = _filler(case)
    ni, nj, nz, ng = case["n"]
    H = {"label": "FIXSRC", "fileId": 1, "itype": 0, "ndim": 3, "ngroup": ng, "ninti": ni, "nintj": nj, "nintk": nz,
         "idists": 1, "ndcomp": 1, "nscomp": 0, "nedgi": 0, "nedgj": 0, "nedjk": 0, "nblok": 1}
    if case.get("f32"):
        arr = np.array(f.f32s(ni * nj * nz * ng), dtype=np.float32)
    else:
        arr = np.array(f.f64s(ni * nj * nz * ng))
    return H, {"fixSrc": arr.reshape(ni, nj, nz, ng)}


def fixsrc_layout(H, D):
    recs = [("file-id", [S(H["label"], 24), I(H["fileId"])]), ("1D-file-control", [I(H[k]) for k in FIXSRC_1D])]
    a = D["fixSrc"]
    for g in range(H["ngroup"]):
        for z in range(H["nintk"]):
            recs.append(("3D-source", [LD(a[:, :, z, g].flatten(order="F"))]))
    return recs


# =====================================================================================================
# NHFLUX / NAFLUX, DIF3D-Nodal and DIF3D-VARIANT 11 layouts (nhflux module documentation)

NHFLUX_1D = "ndim ngroup ninti nintj nintk iter effk power nSurf nMom nintxy npcxy nscoef itrord iaprx ileak iaprxz ileakz iorder".split()
NHFLUX_1D_VARIANT = "npcbdy npcsym npcsec iwnhfl nMoms".split()


def nhflux_keys(variant):
    if variant:
        return NHFLUX_1D + NHFLUX_1D_VARIANT + ["IDUM%02d" % e for e in range(1, 7)]
    return NHFLUX_1D + ["IDUM%02d" % e for e in range(1, 12)]


def nhflux_gen(case):
    f = _filler(case)
    variant = bool(case["variant"])
    ng, nz, na, nsurf, nmom, nscoef, next_ = case["ng"], case["nz"], case["na"], case["nsurf"], case["nmom"], case["nscoef"], case["next"]
    H = {"label": case["label"], "_variant": variant, "_adjoint": bool(case["adjoint"]), "_sets": case["sets"]}
    for k in nhflux_keys(variant):
        H[k] = f.f32() if scalar_kind(k) == "float" else f.i(0, 9)
    H.update(ndim=3, ngroup=ng, nintk=nz, nintxy=na, nSurf=nsurf, nMom=nmom, nscoef=nscoef, npcxy=na * nsurf + next_)
    moms = nmom
    if variant:
        H.update(npcbdy=next_, npcsym=case["nsym"], npcsec=case["nsec"], iwnhfl=case["iwnhfl"], nMoms=case["nmoms"])
        moms += case["nmoms"]
    currents = not (variant and case["iwnhfl"] == 1)
    H["_currents"] = currents
    D = {
        "incomingPointersToAllAssemblies": np.array(f.ints(nsurf * na, 0, 999), dtype=int).reshape(nsurf, na),
        "externalCurrentPointers": np.array(f.ints(next_, 0, 999), dtype=int),
        "geodstCoordMap": np.array(f.ints(na, 1, 999), dtype=int),
        "fluxMomentsAll": np.array(f.f64s(na * nz * moms * ng)).reshape(na, nz, moms, ng),
    }
    if variant:
        n = case["nsym"] + case["nsec"]
        D["outgoingPCSymSecPointers"] = np.array(f.ints(n, 0, 999), dtype=int)
        D["ingoingPCSymSecPointers"] = np.array(f.ints(n, 0, 999), dtype=int)
    if currents:
        D["partialCurrentsHexAll"] = np.array(f.f64s(na * nz * nsurf * ng * nscoef)).reshape(na, nz, nsurf, ng, nscoef)
        D["partialCurrentsHex_extAll"] = np.array(f.f64s(next_ * nz * ng * nscoef)).reshape(next_, nz, ng, nscoef)
        D["partialCurrentsZAll"] = np.array(f.f64s(na * (nz + 1) * 2 * ng * nscoef)).reshape(na, nz + 1, 2, ng, nscoef)
    return H, D


def nhflux_layout(H, D):
    variant = H["_variant"]
    recs = [("file-id", [S(H["label"], 28)]), ("1D-file-control", [MAP(nhflux_keys(variant), H)])]
    two = [LI(D["incomingPointersToAllAssemblies"].flatten(order="F")), LI(D["externalCurrentPointers"]), LI(D["geodstCoordMap"])]
    if variant:
        two += [LI(D["outgoingPCSymSecPointers"]), LI(D["ingoingPCSymSecPointers"])]
    recs.append(("2D-node-maps", two))
    ng, nz, nmom = H["ngroup"], H["nintk"], H["nMom"]
    fm = D["fluxMomentsAll"]
    for _ in range(H["_sets"]):
        for g in range(ng):
            ge = ng - g - 1 if H["_adjoint"] else g
            for z in range(nz):
                # ((FLUX(I,J),I=1,NMOM),J=1,NINTXY) then, for VARIANT, the odd-parity moments the same way
                fields = [LD(fm[:, z, :nmom, ge].flatten(order="C"))]
                if variant and H["nMoms"] > 0:
                    fields.append(LD(fm[:, z, nmom:, ge].flatten(order="C")))
                recs.append(("3D-flux-moments", fields))
            if H["_currents"]:
                for z in range(nz):
                    recs.append(("4D-xy-partial-currents", [LD(D["partialCurrentsHexAll"][:, z, :, ge, :].flatten(order="C")),
                                                            LD(D["partialCurrentsHex_extAll"][:, z, ge, :].flatten(order="C"))]))
                for z in range(nz + 1):
                    # surface (up/down) first, node second, coefficient last
                    recs.append(("5D-z-partial-currents", [LD(np.transpose(D["partialCurrentsZAll"][:, z, :, ge, :], (1, 0, 2)).flatten(order="C"))]))
    return recs


def nhflux_build(H, D):
    from armi.nuclearDataIO.cccc import nhflux

    c = nhflux.NHFLUX(variant=H["_variant"], numDataSetsToRead=H["_sets"])
    for k, v in H.items():
        if not k.startswith("_"):
            c.metadata[k] = v
    for k, v in D.items():
        setattr(c, k, v.copy())
    return c


def nhflux_compare(c, H, D):
    bad = _meta_diff(c.metadata, H, [k for k in H if not k.startswith("_")])
    for k, v in D.items():
        if v.size == 0:
            continue
        if not _eq(getattr(c, k), v):
            bad.append(k)
    return bad
