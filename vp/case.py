"""Cases are plain JSON data.  Canonical encoding, hashing and a structural shrinker."""
import hashlib
import json
import math


def canon(case):
    return json.dumps(case, sort_keys=True, separators=(",", ":"), allow_nan=True)


def digest(case):
    return hashlib.sha1(canon(case).encode()).hexdigest()[:20]


def size(case):
    return len(canon(case))


def _candidates(x):
    """Yield structurally smaller variants of x (one local change each)."""
    if isinstance(x, list):
        n = len(x)
        # drop chunks, large first
        chunk = n // 2
        while chunk >= 1:
            for i in range(0, n, chunk):
                yield x[:i] + x[i + chunk :]
            chunk //= 2
        for i, item in enumerate(x):
            for c in _candidates(item):
                yield x[:i] + [c] + x[i + 1 :]
    elif isinstance(x, dict):
        for k in sorted(x):
            for c in _candidates(x[k]):
                y = dict(x)
                y[k] = c
                yield y
    elif isinstance(x, bool):
        if x:
            yield False
    elif isinstance(x, int):
        if x != 0:
            yield 0
            if abs(x) > 1:
                yield x // 2 if x > 0 else -((-x) // 2)
                yield x - 1 if x > 0 else x + 1
            if x < 0:
                yield -x
    elif isinstance(x, float):
        if math.isnan(x) or math.isinf(x):
            yield 0.0
        elif x != 0.0:
            yield 0.0
            yield 1.0
            if x != float(int(x)):
                yield float(int(x))
            r = float("%.3g" % x)
            if r != x:
                yield r
            if x < 0:
                yield -x
    elif isinstance(x, str):
        if x:
            yield ""
            if len(x) > 1:
                yield x[: len(x) // 2]
                yield x[1:]
                yield x[:-1]


def shrink(case, still_fails, max_evals=400):
    """Greedy structural shrink: keep any smaller variant for which ``still_fails`` is true.

    ``still_fails(case)`` must return True/False and never raise.
    Returns (smallest_case, evaluations_used).
    """
    evals = 0
    best = case
    improved = True
    while improved and evals < max_evals:
        improved = False
        for cand in _candidates(best):
            if evals >= max_evals:
                break
            if size(cand) >= size(best) and canon(cand) >= canon(best):
                continue
            evals += 1
            try:
                ok = still_fails(cand)
            except Exception:
                ok = False
            if ok:
                best = cand
                improved = True
                break
    return best, evals
