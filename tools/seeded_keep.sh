#!/bin/sh
# tools/seeded_keep.sh <src dir> <Cnn> <name> <detected:yes|no> "<needs to manifest>" "<caught by / notes>"
SRC="$1"; PID="$2"; NAME="$3"; DET="$4"; NEEDS="$5"; BY="$6"
D="/verif/seeded/$PID/$NAME"; mkdir -p "$D"
cp "$SRC/patch.diff" "$D/patch.diff"; cp "$SRC/demo.py" "$D/demo.py"; [ -f "$SRC/notes.md" ] && cp "$SRC/notes.md" "$D/notes.md"
/venv/bin/python - "$D" "$PID" "$NAME" "$DET" "$NEEDS" "$BY" <<'PY'
import json, sys
d, pid, name, det, needs, by = sys.argv[1:7]
json.dump({"property": pid, "name": name, "breaks": pid, "needs_to_manifest": needs,
           "confirmed": "tools/seeded_verify.sh: demo exits 0 on a clean scratch worktree and non-zero with patch.diff applied; "
                        "pinned baseline (881 stable tests) still passes with the patch",
           "check_run": "VP_ARMI_ROOT=<scratch worktree with patch> ./check %s (quick tier, seed 1)" % pid,
           "detected_by_check": det == "yes", "detection_notes": by, "origin": "fresh sub-agent given only the property text and a scratch worktree"},
          open(d + "/meta.json", "w"), indent=1)
PY
echo kept $D
