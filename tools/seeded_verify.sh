#!/bin/sh
# tools/seeded_verify.sh <dir with patch.diff + demo.py> [Cnn check args...]
# Confirms a seeded change: demo passes on clean tree, fails with the patch, pinned baseline still passes with the patch;
# then (if a property id is given) runs ./check against the patched scratch worktree.
D="$(cd "$1" && pwd)"; shift
NAME="$(basename "$(dirname "$D")")_$(basename "$D")"
WT="/tmp/vpseed_$NAME"
git -C /repo worktree remove --force "$WT" >/dev/null 2>&1
git -C /repo worktree add --detach "$WT" HEAD >/dev/null 2>&1 || { echo "cannot create worktree"; exit 2; }
cd "$WT"
PYTHONPATH="$WT" timeout 900 /venv/bin/python "$D/demo.py" >/tmp/vpseed_$NAME.clean.log 2>&1; RC_CLEAN=$?
git -C "$WT" apply "$D/patch.diff" || { echo "PATCH DOES NOT APPLY"; git -C /repo worktree remove --force "$WT"; exit 2; }
PYTHONPATH="$WT" timeout 900 /venv/bin/python "$D/demo.py" >/tmp/vpseed_$NAME.mut.log 2>&1; RC_MUT=$?
echo "demo: clean exit=$RC_CLEAN (want 0), patched exit=$RC_MUT (want non-zero)"
tail -2 /tmp/vpseed_$NAME.mut.log
/verif/tools/baseline.sh "$WT" | head -5
if [ -n "$1" ]; then
  cd /verif && VP_ARMI_ROOT="$WT" VP_NO_SHRINK=1 ./check "$@" --no-evidence 2>&1 | grep -E "violation|VIOLATION|^OK|HARNESS|KNOWN" | cut -c1-260
fi
git -C /repo worktree remove --force "$WT" >/dev/null 2>&1
git -C /repo worktree prune
rm -f /tmp/vpseed_$NAME.clean.log /tmp/vpseed_$NAME.mut.log
