#!/bin/sh
# run every claimed check's thorough tier once (no evidence), one summary line each
cd "$(dirname "$0")/.."
for P in $(/venv/bin/python -c "import json; print(' '.join(c['property_id'] for c in json.load(open('MANIFEST.json'))['checks']))"); do
  S=$(date +%s)
  OUT=$(VERIF_SEED=${VERIF_SEED:-1} ./check $P --tier thorough --no-evidence 2>&1); RC=$?
  echo "$P thorough rc=$RC $(( $(date +%s) - S ))s"
  echo "$OUT" | grep -E "violation|^VIOLATION|HARNESS|part " | cut -c1-300
done
