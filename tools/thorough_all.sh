#!/bin/sh
# tools/thorough_all.sh [Cnn ...]: run the thorough tier of the given (default: every claimed) check once (no evidence)
cd "$(dirname "$0")/.."
LIST="$*"
[ -z "$LIST" ] && LIST=$(/venv/bin/python -c "import json; print(' '.join(c['property_id'] for c in json.load(open('MANIFEST.json'))['checks']))")
for P in $LIST; do
  S=$(date +%s)
  OUT=$(VERIF_SEED=${VERIF_SEED:-1} ./check $P --tier thorough --no-evidence 2>&1); RC=$?
  echo "$P thorough rc=$RC $(( $(date +%s) - S ))s"
  echo "$OUT" | grep -E "violation|^VIOLATION|HARNESS|part " | cut -c1-300
done
