#!/bin/sh
# tools/baseline.sh <repo-root> : run the pinned baseline command in <repo-root>, compare with BASELINE.json stable_pass
ROOT="${1:-/repo}"
OUT=$(mktemp /tmp/vpbase_XXXX.xml)
cd "$ROOT" && PYTHONPATH="$ROOT" /venv/bin/python -m pytest -ra -q -p no:cacheprovider --timeout=900 --continue-on-collection-errors --junitxml="$OUT" >/dev/null 2>&1
/venv/bin/python - "$OUT" <<'PY'
import json, sys, xml.etree.ElementTree as ET
base = set(json.load(open('/root/.vp/BASELINE.json'))['stable_pass'])
t = ET.parse(sys.argv[1]).getroot()
passed = set()
for tc in t.iter('testcase'):
    if not any(ch.tag in ('failure', 'error', 'skipped') for ch in tc):
        passed.add('%s::%s' % (tc.get('classname'), tc.get('name')))
missing = sorted(base - passed)
print('baseline stable_pass=%d passed_now=%d missing=%d' % (len(base), len(passed), len(missing)))
for m in missing[:20]:
    print('  MISSING', m)
sys.exit(1 if missing else 0)
PY
RC=$?
rm -f "$OUT"
exit $RC
