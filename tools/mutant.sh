#!/bin/sh
# tools/mutant.sh <name> <patch-file|-e 'sed-expr' file> -- <check args...>
# Applies a change to a scratch worktree of /repo (never /repo itself), runs ./check against it, removes it.
# usage: tools/mutant.sh NAME PATCH CHECKARGS...      (PATCH = unified diff relative to repo root)
#        tools/mutant.sh NAME sed:FILE:EXPR CHECKARGS...
NAME="$1"; CHANGE="$2"; shift 2
WT="/tmp/vpmut_$NAME"
git -C /repo worktree remove --force "$WT" >/dev/null 2>&1
git -C /repo worktree add --detach "$WT" HEAD >/dev/null 2>&1 || { echo "cannot create worktree"; exit 2; }
case "$CHANGE" in
  sed:*) F=$(echo "$CHANGE" | cut -d: -f2); E=$(echo "$CHANGE" | cut -d: -f3-); sed -i "$E" "$WT/$F" ;;
  *) git -C "$WT" apply "$CHANGE" || { echo "patch failed"; git -C /repo worktree remove --force "$WT"; exit 2; } ;;
esac
if git -C "$WT" diff --quiet; then echo "MUTANT UNCHANGED (sed did not match)"; git -C /repo worktree remove --force "$WT"; exit 2; fi
cd "$(dirname "$0")/.." && VP_ARMI_ROOT="$WT" VP_NO_SHRINK=1 ./check "$@" --no-evidence 2>&1 | grep -E "violation|VIOLATION|^OK|HARNESS" | cut -c1-220
RC=$?
git -C /repo worktree remove --force "$WT" >/dev/null 2>&1
git -C /repo worktree prune
