#!/venv/bin/python
"""Print the prompt for a seeding sub-agent: tools/seed_prompt.py C07 [N]  (creates the worktree + out dir)."""
import json, os, subprocess, sys
pid = sys.argv[1].upper(); n = sys.argv[2] if len(sys.argv) > 2 else "3"
tag = sys.argv[3] if len(sys.argv) > 3 else ""
wt = "/tmp/seed_%s%s" % (pid.lower(), tag); out = wt + "_out"
if not os.path.isdir(wt):
    subprocess.run(["git", "-C", "/repo", "worktree", "add", "--detach", wt, "HEAD", "-q"], check=True)
os.makedirs(out, exist_ok=True)
for l in open("/verif/properties.jsonl"):
    p = json.loads(l)
    if p["id"] == pid:
        text = "%s\n\n%s\n\nIt must hold over: %s\n\nThe code that is meant to make it hold is mainly in: %s" % (
            p["title"], p["statement"], p["quantifier"]["text"], ", ".join(p["anchors"]["files"]))
import glob, re
avoid = []
for m in sorted(glob.glob("/verif/seeded/%s/*/meta.json" % pid)):
    d = os.path.dirname(m)
    files = sorted(set(re.findall(r"^\+\+\+ b/(\S+)", open(os.path.join(d, "patch.diff")).read(), re.M)))
    funcs = sorted(set(x.strip() for x in re.findall(r"^@@.*@@\s*(.*)$", open(os.path.join(d, "patch.diff")).read(), re.M) if x.strip()))
    avoid.append("- %s (%s): %s" % (", ".join(files), "; ".join(funcs)[:120], json.load(open(m))["needs_to_manifest"]))
t = open("/verif/tools/SEEDING_PROMPT.txt").read()
if avoid:
    t = t.replace("FOR EACH CHANGE k = 1..{N}:", "ALREADY COLLECTED in an earlier round (do NOT repeat these changes, close variants of them, or other changes at the same lines; look for different code sites, different clauses of the property and different triggering conditions):\n" + "\n".join(avoid) + "\n\nFOR EACH CHANGE k = 1..{N}:")
print(t.replace("{N}", n).replace("{PID}", pid).replace("{PROPERTY_TEXT}", text).replace("{WT}", wt).replace("{OUT}", out))
