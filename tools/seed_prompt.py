#!/venv/bin/python
"""Print the prompt for a seeding sub-agent: tools/seed_prompt.py C07 [N]  (creates the worktree + out dir)."""
import json, os, subprocess, sys
pid = sys.argv[1].upper(); n = sys.argv[2] if len(sys.argv) > 2 else "3"
tag = sys.argv[3] if len(sys.argv) > 3 else ""
wt = "/tmp/seed_%s%s" % (pid.lower(), tag); out = wt + "_out"
if not os.path.isdir(wt):
    subprocess.run(["git", "-C", "/repo", "worktree", "add", "--detach", wt, "HEAD", "-q"], check=True)
os.makedirs(out, exist_ok=True)
for l in open("/verif/properties.jsonl"):
    p = json.loads(l)
    if p["id"] == pid:
        text = "%s\n\n%s\n\nIt must hold over: %s\n\nThe code that is meant to make it hold is mainly in: %s" % (
            p["title"], p["statement"], p["quantifier"]["text"], ", ".join(p["anchors"]["files"]))
t = open("/verif/tools/SEEDING_PROMPT.txt").read()
print(t.replace("{N}", n).replace("{PID}", pid).replace("{PROPERTY_TEXT}", text).replace("{WT}", wt).replace("{OUT}", out))
