#!/bin/sh
# tools/evidence_all.sh [seed]: run every claimed check's quick tier WITH evidence (refreshes evidence/<id>.json)
SEED="${1:-1}"
cd "$(dirname "$0")/.."
for P in $(/venv/bin/python -c "import json; print(' '.join(c['property_id'] for c in json.load(open('MANIFEST.json'))['checks']))"); do
  S=$(date +%s)
  OUT=$(VERIF_SEED=$SEED ./check $P --tier quick 2>&1); RC=$?
  echo "$P seed=$SEED rc=$RC $(( $(date +%s) - S ))s $(echo "$OUT" | grep -E "^VIOLATION|HARNESS" | head -3 | tr '\n' ' ')"
done
