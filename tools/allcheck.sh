#!/bin/sh
# tools/allcheck.sh <seed> [tier] : run every claimed check once (no evidence), one summary line each
SEED="${1:-1}"; TIER="${2:-quick}"
cd "$(dirname "$0")/.."
for P in $(/venv/bin/python -c "import json; print(' '.join(c['property_id'] for c in json.load(open('MANIFEST.json'))['checks']))"); do
  S=$(date +%s)
  OUT=$(VERIF_SEED=$SEED ./check $P --tier $TIER --no-evidence 2>&1); RC=$?
  E=$(( $(date +%s) - S ))
  echo "$P seed=$SEED rc=$RC ${E}s $(echo "$OUT" | grep -E "^VIOLATION|HARNESS" | head -3 | tr '\n' ' ')"
done
