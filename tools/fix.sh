#!/bin/sh
# tools/fix.sh <patch file> "<commit subject starting with fix:>"  -> applies to /repo, commits, prints short hash
P="$(cd "$(dirname "$1")" && pwd)/$(basename "$1")"; MSG="$2"
cd /repo || exit 2
git apply "$P" || { echo "PATCH FAILED"; exit 2; }
git add -A && git commit -qm "$MSG" && git log --oneline | head -1
