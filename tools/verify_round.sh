#!/bin/sh
# tools/verify_round.sh <tag e.g. r4> <Cnn> [extra check args]: seeded_verify for /tmp/seed_cnn<tag>_out/m1..m3, log in .scratch/v_<tag>_<Cnn>.log
TAG="$1"; P="$2"; shift 2
d=$(echo "$P" | tr 'C' 'c')
cd "$(dirname "$0")/../.scratch" || exit 2
LOG="v_${TAG}_${P}.log"; : > "$LOG"
for k in 1 2 3; do
  [ -d "/tmp/seed_${d}${TAG}_out/m$k" ] || continue
  echo "##### $P m$k" >> "$LOG"
  ../tools/seeded_verify.sh "/tmp/seed_${d}${TAG}_out/m$k" "$P" "$@" 2>&1 | grep -v "^KNOWN" | cut -c1-260 | tail -5 >> "$LOG"
done
