#!/venv/bin/python
"""tools/known.py fixed|known <property> <part> <signature> <commit|-> <replay-file> <what fails...>"""
import json, sys, os
HERE = os.path.dirname(os.path.dirname(os.path.abspath(__file__)))
status, prop, part, sig, commit, replay = sys.argv[1:7]
what = " ".join(sys.argv[7:])
path = os.path.join(HERE, "KNOWN_FINDINGS.json")
data = json.load(open(path))
case = json.load(open(os.path.join(HERE, replay)))["case"] if replay != "-" else None
entry = {"property": prop, "part": part, "signature": sig, "status": status, "what_fails": what, "replay": replay,
         "minimal_case": case}
if status == "fixed":
    entry["commit"] = commit
    entry["line"] = "fixed: property=%s %s %s" % (prop, commit, what)
else:
    entry["line"] = "KNOWN-FINDING: property=%s %s" % (prop, what)
data["findings"] = [e for e in data["findings"] if not (e["property"] == prop and e["signature"] == sig and e.get("replay") == replay)] + [entry]
json.dump(data, open(path, "w"), indent=1, sort_keys=True)
print(entry["line"])
