#!/venv/bin/python
"""Print a markdown table of the kept seeded changes (from seeded/*/*/meta.json)."""
import glob, json, os
HERE = os.path.dirname(os.path.dirname(os.path.abspath(__file__)))
rows = []
for f in sorted(glob.glob(os.path.join(HERE, "seeded", "*", "*", "meta.json"))):
    m = json.load(open(f))
    rows.append((m["property"], m["name"], m["needs_to_manifest"], m["detection_notes"]))
print("| property | seeded change | needs to manifest | caught by (quick tier) |")
print("|---|---|---|---|")
for r in rows:
    print("| %s | %s | %s | %s |" % r)
print("\n%d seeded changes kept; first-round misses: %d" % (len(rows), sum(1 for r in rows if "missed at first" in r[3] or "marginally" in r[3])))
