#!/venv/bin/python
"""Regenerate MANIFEST.json from the per-property table below (only built checks are claimed)."""
import json
import os

HERE = os.path.dirname(os.path.dirname(os.path.abspath(__file__)))

SETUP = (
    "/venv/bin/python -c 'import hypothesis' 2>/dev/null || "
    "/venv/bin/pip install --no-index --find-links /opt/veriftools/wheels hypothesis"
)

# id -> (category, technique, text, note, design_ref)
CHECKS = {}


def add(pid, category, technique, text, note, ref):
    CHECKS[pid] = (category, technique, text, note, ref)


add(
    "C07",
    "exploration",
    "exhaustive enumeration of cells/ring counts + Hypothesis-generated grids against an independent cube-coordinate geometry",
    "Every cell within the stated ring bound (both hex orientations, both Cartesian centre styles) and every n up to the stated "
    "bound is enumerated and compared with an independent ring-walk / affine geometry; pitches, far cells, bounds grids and "
    "nestings are generated with Hypothesis. Exhaustive inside the bound, sampled outside it.",
    "Reference geometry in vp/model/hexmodel.py shares only the documented conventions with armi; float tolerance 1e-9*pitch.",
    "DESIGN.md section 4, C07",
)

add(
    "C04",
    "exploration",
    "Hypothesis-generated blueprint reactors + state-change programs; round-trip oracle on an observe() record",
    "Reactors are generated from blueprint text (hex third/full, both orientations, Cartesian full/quarter, theta-R-Z, pin lattices, SFP), "
    "mutated by generated programs (typed parameter assignments at every level, temperatures, compositions, swaps, rotations, "
    "discharges, third-to-full conversion, free-coordinate placement) and written/loaded through the real Database; the loaded "
    "tree must be observationally equal, equal across two loads, and stable under load-write-load.",
    "observe() (vp/model/observe.py) defines observational equality; parameters that armi re-derives on load (area/volume caches, "
    "block mass summaries, core maxAssemNum) are compared through the derived quantities.",
    "DESIGN.md section 4, C04",
)

NOT_BUILT_REASON = "check not built yet in this round (planned in DESIGN.md section 4); not claimed"


def main():
    props = [json.loads(l) for l in open(os.path.join(HERE, "properties.jsonl"))]
    checks = []
    na = []
    for p in props:
        pid = p["id"]
        if pid in CHECKS and os.path.exists(os.path.join(HERE, "vp", "props", pid.lower() + ".py")):
            cat, tech, text, note, ref = CHECKS[pid]
            checks.append(
                {
                    "property_id": pid,
                    "quick_cmd": "./check %s --tier quick" % pid,
                    "thorough_cmd": "./check %s --tier thorough" % pid,
                    "evidence_file": "evidence/%s.json" % pid,
                    "replay_cmd_template": "./check %s --replay {path}" % pid,
                    "engine": "vp-runner",
                    "level_claimed": {"category": cat, "text": text, "design_ref": ref},
                    "level_note": note,
                    "technique": tech,
                }
            )
        else:
            na.append({"property_id": pid, "reason": NOT_BUILT_REASON})
    man = {
        "version": 1,
        "setup_cmd": SETUP,
        "hooks": {
            "guard": "ARMI_VERIF",
            "enable": "no source hooks are needed: every check observes armi through its public API and the files it writes; "
            "./check exports ARMI_VERIF=1 for uniformity",
            "baseline_off_cmd": "cd /repo && /venv/bin/python -m pytest -ra -q -p no:cacheprovider --timeout=900 --continue-on-collection-errors",
            "source_commits": [],
            "add_only": True,
        },
        "engines": [
            {
                "name": "vp-runner",
                "path": "vp/runner.py",
                "serves_properties": [c["property_id"] for c in checks],
                "kind_free_text": "property-based testing: Hypothesis strategies / complete enumerations producing JSON cases, "
                "pure execute(case) oracles, sharded over processes, collect-then-shrink, replay files, known-findings file",
            }
        ],
        "checks": checks,
        "not_applicable": na,
        "notes": "Entry point ./check <Cnn> [--tier quick|thorough] [--replay FILE]; VERIF_SEED and VERIF_TIER are honoured. "
        "Exit 0 held / 1 VIOLATION / 2 harness error. KNOWN_FINDINGS.json lists known and fixed findings.",
    }
    with open(os.path.join(HERE, "MANIFEST.json"), "w") as f:
        json.dump(man, f, indent=1)
    print("claimed:", [c["property_id"] for c in checks])


if __name__ == "__main__":
    main()
