#!/venv/bin/python
"""Regenerate MANIFEST.json from the per-property table below (only built checks are claimed)."""
import json
import os

HERE = os.path.dirname(os.path.dirname(os.path.abspath(__file__)))

SETUP = (
    "/venv/bin/python -c 'import hypothesis' 2>/dev/null || "
    "/venv/bin/pip install --no-index --find-links /opt/veriftools/wheels hypothesis"
)

# id -> (category, technique, text, note, design_ref)
CHECKS = {}


def add(pid, category, technique, text, note, ref):
    CHECKS[pid] = (category, technique, text, note, ref)


add(
    "C07",
    "exploration",
    "exhaustive enumeration of cells/ring counts + Hypothesis-generated grids against an independent cube-coordinate geometry",
    "Every cell within the stated ring bound (both hex orientations, both Cartesian centre styles) and every n up to the stated "
    "bound is enumerated and compared with an independent ring-walk / affine geometry; pitches, far cells, bounds grids and "
    "nestings are generated with Hypothesis. Exhaustive inside the bound, sampled outside it.",
    "Reference geometry in vp/model/hexmodel.py shares only the documented conventions with armi; float tolerance 1e-9*pitch.",
    "DESIGN.md section 4, C07",
)

add(
    "C04",
    "exploration",
    "Hypothesis-generated blueprint reactors + state-change programs; round-trip oracle on an observe() record",
    "Reactors are generated from blueprint text (hex third/full, both orientations, Cartesian full/quarter, theta-R-Z, pin lattices, SFP), "
    "mutated by generated programs (typed parameter assignments at every level, temperatures, compositions, swaps, rotations, "
    "discharges, third-to-full conversion, free-coordinate placement) and written/loaded through the real Database; the loaded "
    "tree must be observationally equal, equal across two loads, and stable under load-write-load.",
    "observe() (vp/model/observe.py) defines observational equality; parameters that armi re-derives on load (area/volume caches, "
    "block mass summaries, core maxAssemNum) are compared through the derived quantities.",
    "DESIGN.md section 4, C04",
)

add("C03", "exploration",
    "complete shape x material grid + Hypothesis temperature paths and linked-dimension histories against f(T) from linearExpansionPercent",
    "Every one of 12 two-dimensional shape classes x 52 library materials is visited (expanding solids several times per cell with "
    "generated cold dimensions, input temperature and 1-6 temperatures inside the material's declared validity window, boundaries and "
    "0 C included). Hypothesis additionally draws paths, hot dimension writes, blueprint material modifications and 2-4-component "
    "linked blocks built like BlockBlueprint.construct. After every step dimensions, area, per-nuclide density ratios, mass per unit "
    "height, cached volume/getMass, Tc= previews, link equality and path-vs-single-jump are compared with cold*f, f^2 and (f1/f2)^2.",
    "Trusts each material's own linearExpansionPercent (evaluated on a separate instance) and the validity windows it declares. "
    "Tolerances rel 1e-10 (formulas), 1e-12 (read-backs), exact for kept dimensions. Only density ratios are judged.",
    "DESIGN.md section 4, C03")

add("C08", "exploration",
    "exhaustive cell enumeration + model-based rotation histories against an exact cube-coordinate geometry",
    "Every cell within 20 rings (60 thorough) x both orientations x k in [-12,12] for rotateIndex; every cell within 40 (150) rings for "
    "third-core symmetry; every cell with |i|,|j| <= 30 (120) for the four Cartesian quarter-core variants; all cell numbers within 30 "
    "(90) rings for getIndexOfRotatedCell; all 50 angle constructions for HexAssembly.rotate; Hypothesis-generated 1-3-block hex "
    "assemblies with pin lattices and boundary data under rotation histories compared after every step with an integer-coordinate model.",
    "vp/model/hexmodel.py geometry and its documented conventions; blocks assembled directly the way blueprints do it; float tolerance "
    "1e-9*pitch*ring.",
    "DESIGN.md section 4, C08")

add("C09", "exploration",
    "property-based differential testing against a struct reference encoder; round trip and byte idempotence",
    "Random field sequences go through the binary and ASCII record classes against an independent encoder. Containers of the eight "
    "simple formats are built from scratch and every written file is compared record by record with the documented layout, then read "
    "back, re-written and taken through ASCII. The five cross-section library formats are exercised by mutating the shipped libraries "
    "under a container-level reference encoder that reproduces every shipped fixture byte for byte. All 30 shipped CCCC files are "
    "re-written byte-identically in both encodings.",
    "Trusts vp/model/c09_ref.py and the layout transcriptions in c09_formats.py / c09_xs.py (anchored to the fixtures), float32-exact "
    "values, strings without trailing blanks. Known shapes (ISOTXS sub-blocking, ASCII field widths) are excluded by construction. A "
    "presence condition wrong in the same way for reading and writing and not exercised by a fixture stays undetectable for the "
    "library formats.",
    "DESIGN.md section 4, C09")

add("C10", "exploration",
    "reference model + all-orders enumeration of generated library sets; metamorphic relations (linearity, additivity)",
    "Generated ISOTXS/GAMISO/PMATRX libraries, written and re-read with armi's own I/O, are merged in every order into an empty or "
    "existing library; after each step the result must equal a union model or, on conflict, be refused with the target unchanged. "
    "Macroscopic and energy constants and MacroscopicCrossSectionCreator output are compared with independent numpy sums and checked "
    "for linearity, additivity, zero on empty compositions and their defining derived sums.",
    "armi's cccc readers/writers (C09) produce the objects; library data are truncations and relabelings of the shipped fixtures; "
    "documented 'first velocity wins' and 'file-wide chi dropped on merge' accepted; sums compared at 1e-10 * sum|terms|. Three known "
    "refused-merge shapes are excluded by construction.",
    "DESIGN.md section 4, C10")

add("C12", "exploration",
    "property-based testing of expansion histories against a reference model",
    "Hypothesis-generated pin-type assemblies (8 block kinds, 11 materials, explicit/automatic targets, direct and blueprint "
    "construction) x histories of 1-6 prescribed or thermal-field expansions with optional inverses. After every change: height, "
    "contiguity, grid bounds, target tracking, linkage and stacking, target and uniform-growth mass, density scaling, inverse "
    "restoration. The one shape where armi conserves the linked column instead of the per-block target is excluded by construction, "
    "counted, and kept observed in a separate part.",
    "material.linearExpansionPercent and Component.setTemperature's radial update; the generator's own description of the assembly for "
    "expected targets and linkage; tolerances 1e-10.",
    "DESIGN.md section 4, C12")

add("C13", "exploration",
    "model-based property testing of symmetry-conversion programs (Hypothesis)",
    "Generated third-core hex reactors (2-5 rings, holes, with/without centre assembly, pin lattices, arbitrary block parameters and "
    "compositions) are driven through generated programs of convert / restore / add-edge / remove-edge / assignments. After each "
    "conversion the occupied cells, the copies (rotation, independence, names) and the x3 relations on mass, volume and parameter "
    "totals are checked against an independent hex geometry and armi's own pre-conversion totals; after each restore or edge removal "
    "the core must equal the earlier observe() snapshot with identical lookup-table bindings.",
    "observe() as the notion of state (volume/area caches and Core.p.maxAssemNum excluded); vp/model/hexmodel.py; the blueprint route "
    "of vp/gen/reactor.py; 4 ulp for centre values multiplied then divided by 3; rel 1e-10 for x3 sums.",
    "DESIGN.md section 4, C13")

add("C14", "exploration",
    "model-based property testing of fuel-move programs (Hypothesis)",
    "Generated cores (hex third/full, Cartesian full/quarter, 2-4 rings, with pool) x trackAssems x stationary-flag settings x "
    "programs of up to 14 swap / cascade / discharge-swap / add / remove operations are run against a location/pool/purged/block-stack "
    "reference model. Children, locators, the three lookup tables, inventory, refusals and assembly contents are compared after every "
    "step. The two known shapes are excluded by construction, counted, and kept under observation by a dedicated part.",
    "vp/gen/reactor.py; a stand-in operator with only .r and .cs; stationary status taken from the blueprint block kind; armi's "
    "getSymmetryFactor used to normalise masses and areas.",
    "DESIGN.md section 4, C14")

add("C15", "exploration",
    "reference scheduler vs recorded hook trace; inverse-pair enumeration of node numbering",
    "Generated cycle histories (both input styles, restart, zero-step cycles) combined with generated interface stacks and coupling "
    "scripts are run through the real Operator and compared event for event, including reactor time state, with an independent "
    "scheduler. Node and step numbering is checked exhaustively for every burn-step vector up to 4 cycles x 3 steps (5 x 4 thorough) "
    "and on generated histories up to 8 x 6. Documented-invalid configurations must raise.",
    "vp/model/schedule.py written from docs and docstrings; the deferral rule (BOL and BOC only) follows the implementation; recorders "
    "are real Interface subclasses; two known input shapes (zero burn steps / zero availability in detailed cycles) are excluded.",
    "DESIGN.md section 4, C15")

add("C19", "exploration",
    "exhaustive table enumeration + Hypothesis temperatures",
    "Every nuclide, identifier-table key, element, burn-chain entry and material class is enumerated completely; material property "
    "functions are evaluated on a dense grid (41 points quick, 2001 thorough) and at Hypothesis-drawn temperatures including exact end "
    "points and 1e-6 end neighbourhoods of each stated range.",
    "The harness' own decoders for name/label/MCNP/AAAZZZS ids and re-readers for nuclides.dat, mcc-nuclides.yaml, burn-chain.yaml; "
    "documented aliases (AM242/nAm242 -> Am-242m; DUMP1/DUMP2 share DUMMY); stated range = ranges the function itself checks; "
    "tolerances abundance 1e-6, mass fractions 1e-5. Four known data/material findings are excluded and counted.",
    "DESIGN.md section 4, C19")

add("C20", "exploration",
    "exhaustive label enumeration + property-based collections/cores against a numpy weighted-mean reference",
    "All one- and two-letter labels over A-Z a-z are enumerated completely. About 500 generated block collections and 300 generated "
    "cores per quick run (24000/12000 thorough) cover Median, Average, FluxWeighted, by-component and 1-D cylinder representations, "
    "nine block-type filters and burnup/temperature boundaries, judged by an independent numpy recomputation plus range, "
    "common-value, duplication, eligible-only and rescaling invariances.",
    "armi's component volume/area/mass and number-density dicts (C02/C03); blueprint construction; float64 means at rel 1e-10; either "
    "middle member accepted as the median for an even number of members.",
    "DESIGN.md section 4, C20")

add("C16", "exploration",
    "model-based retain-state programs, copy/independence histories, exhaustive read-only enumeration",
    "Generated reactors and tree-shaped programs of nested retain-state scopes with all parameter kinds are judged after every scope "
    "exit against an expectation assembled from the entry and pre-exit snapshots. Copy and pickle histories are checked for equality, "
    "serial uniqueness and mutual independence. Read-only refusal is enumerated completely (every parameter of every object, both "
    "assignment forms) for three fixed reactors and sampled on generated ones.",
    "The blueprint -> reactor factory; vp.model.observe field readers used passively; the expectation uses armi's own pre-exit values "
    "for kept parameters; in-place edits of kept parameters are out of scope.",
    "DESIGN.md section 4, C16")

add("C18", "exploration",
    "property-based testing with an independent document evaluator and a geometric lattice-map model, plus complete enumeration",
    "About 400 generated blueprint documents per run (hex third/full, corners up, Cartesian; pin lattices, links, modifications, custom "
    "isotopics) compared field by field with an evaluator that only reads the YAML; about 5 000 lattice maps and grid save/load round "
    "trips per run across all four asciimap classes; regular outlines enumerated completely; 360 documents with one injected "
    "inconsistency must be refused.",
    "armi.materials, nucDirectory and Component number densities; ruamel; lattice-map conventions taken from asciimaps docstrings and "
    "test maps; inputHeightsConsideredHot=True; known shapes (asciimap outline inference through the direct API, duplicate names) are "
    "excluded by construction and counted.",
    "DESIGN.md section 4, C18")

add("C01", "exploration",
    "model-based property testing of edit programs (Hypothesis, swarm-selected operations) against a reference forest",
    "Programs of up to 40 structural edits, copies and pickle round trips over generic composites, blocks, assemblies and a "
    "Reactor/Core/SFP are executed against armi and a reference forest model. After every step all child lists, parent pointers, "
    "detached locators and grid owners are compared, and traversal, flag, type, component and ancestor queries with generated "
    "arguments are compared with a naive walk; copies are checked for shape, disjointness and internal re-linking.",
    "Attribute accessors (.parent, .p.flags bits, .p.type, locator indices and grid, grid.armiObject), Python copy and pickle, and the "
    "harness's respect of caller preconditions (Core.add location free and name unique, no append/extend, no add of an owned object). "
    "Deep-traversal order judged as each-once plus sibling order; sort order only for generic composites.",
    "DESIGN.md section 4, C01")

add("C02", "exploration",
    "property-based testing with Hypothesis: generated objects + composition-edit programs, aggregates recomputed from component primitives",
    "Generated blocks (15 shapes, 44 materials) and whole blueprint reactors (hex, Cartesian and theta-R-Z; symmetry factors 1-4) with "
    "composition-edit programs at component, block, assembly and core level. Every aggregate is recomputed from component (N,V) "
    "primitives and compared with the armi getters; every setter is checked after each step for read-back, untouched nuclides and "
    "renewed additivity; densityTools conversions are checked as inverse pairs.",
    "Component.getNumberDensities() (the stored dict), Component.getVolume(), directory weights and element membership, unit constants, "
    "getSymmetryFactor (cross-checked against the documented centre/edge rule); tolerance rel 1e-10 of the summed absolute terms. One "
    "known shape (component-level mass setters under a symmetry cut) is excluded by construction.",
    "DESIGN.md section 4, C02")

add("C05", "exploration",
    "property-based round trip (Hypothesis) through the pure encoders and real HDF5",
    "Generated per-object columns (8 shape classes x 18 dtypes x None patterns) and flag-class pairs are pushed through the pure "
    "encoders, through the real Database._writeParams/_readParams with a probe composite, and through writeToDB/load on real "
    "parameters, and compared in the documented normal form (about 6.8k columns quick, 236k thorough). Write-time exceptions count as "
    "rejections, per class.",
    "h5py/NumPy and the harness norm (shape/kind/value comparison; NaN == unset, -0.0 == 0.0); documented placeholder values are not "
    "generated in placeholder-scheme columns; numeric kind means bool/int/real/str (width not checked). One known shape (mixed-kind "
    "column cast to its first entry's type) is excluded by construction.",
    "DESIGN.md section 4, C05")

add("C06", "fault_enumeration",
    "complete single-fault enumeration over a real Operator run + model-based snapshot histories (Hypothesis)",
    "Every cycle layout up to (2 cycles x 2 burn steps; thorough 3x3) with and without tight coupling is run fault-free and once per "
    "(hook BOL/BOC/EveryNode/Coupled/EOC/EOL x recorder before/after the database interface x cycle x node) with an exception injected "
    "there, through `with operator:`. The file left in the working directory must exist, open, carry the right successfulCompletion, "
    "list exactly the completed node snapshots plus the error/EOL snapshot, and every snapshot must load equal to the state captured at "
    "that moment. Generated programs of state changes, moves, (labelled) writes, re-writes, loads, listings, six history entry points, "
    "reopen, mergeHistory and splitDatabase are checked against a snapshot-map model after every step (merge/split byte for byte).",
    "C04's observe() equality and normalisations; h5py; the harness' recorders and reference scheduler; metal-fuel reactors from the "
    "shared generator. Faults inside the database writer, faults after the EOL close, process kills and ragged histories are excluded.",
    "DESIGN.md section 4, C06")

add("C11", "exploration",
    "property-based testing with independent overlap / step-function integrator oracles",
    "Generated assemblies x target meshes (including refinements and boundaries within 1e-12...1e-6) are judged by an independent "
    "overlap integrator for atoms, integrated, averaged and peak parameters, there and back. The elevation-window, mesh-filter, "
    "common-mesh, resampleStepwise and average1DWithinTolerance functions are judged against reference models or validity predicates.",
    "Block.getVolume and getNumberDensities; equal-area blocks by construction; tolerance 1e-10 (2e-9 near the documented 1e-10 overlap "
    "cutoff) times the values involved. Averaged parameters with partly unset sources are not asserted.",
    "DESIGN.md section 4, C11")

add("C17", "exploration",
    "schema-driven generation, round trip through all write styles, independent YAML parse",
    "Every setting of the configured App is enumerated with up to 8 (thorough 40) schema-admitted values in all three styles; "
    "Hypothesis explores assignment histories (validity defined by the setting's own schema on an independent copy), multi-setting "
    "documents written by armi and parsed independently with ruamel, hand-written files with invalid values and unknown keys, and "
    "modified/duplicate/deepcopy/pickle copies (about 10 000 evaluations quick, 300 000 thorough). Old names are enumerated completely.",
    "Validity is each setting's own voluptuous schema, cross-checked by a small model of the Coerce/Range/In/Any subset and of the "
    "nested XS, cycles and tight-coupling schemas; voluptuous, ruamel.yaml and float repr are trusted; strings exclude surrogates and "
    "control characters; userPlugins is never a non-empty list when a file is read.",
    "DESIGN.md section 4, C17")

NOT_BUILT_REASON = "check not built yet in this round (planned in DESIGN.md section 4); not claimed"


def main():
    props = [json.loads(l) for l in open(os.path.join(HERE, "properties.jsonl"))]
    checks = []
    na = []
    for p in props:
        pid = p["id"]
        if pid in CHECKS and os.path.exists(os.path.join(HERE, "vp", "props", pid.lower() + ".py")):
            cat, tech, text, note, ref = CHECKS[pid]
            checks.append(
                {
                    "property_id": pid,
                    "quick_cmd": "./check %s --tier quick" % pid,
                    "thorough_cmd": "./check %s --tier thorough" % pid,
                    "evidence_file": "evidence/%s.json" % pid,
                    "replay_cmd_template": "./check %s --replay {path}" % pid,
                    "engine": "vp-runner",
                    "level_claimed": {"category": cat, "text": text, "design_ref": ref},
                    "level_note": note,
                    "technique": tech,
                }
            )
        else:
            na.append({"property_id": pid, "reason": NOT_BUILT_REASON})
    man = {
        "version": 1,
        "setup_cmd": SETUP,
        "hooks": {
            "guard": "ARMI_VERIF",
            "enable": "no source hooks are needed: every check observes armi through its public API and the files it writes; "
            "./check exports ARMI_VERIF=1 for uniformity",
            "baseline_off_cmd": "cd /repo && /venv/bin/python -m pytest -ra -q -p no:cacheprovider --timeout=900 --continue-on-collection-errors",
            "source_commits": [],
            "add_only": True,
        },
        "engines": [
            {
                "name": "vp-runner",
                "path": "vp/runner.py",
                "serves_properties": [c["property_id"] for c in checks],
                "kind_free_text": "property-based testing: Hypothesis strategies / complete enumerations producing JSON cases, "
                "pure execute(case) oracles, sharded over processes, collect-then-shrink, replay files, known-findings file",
            }
        ],
        "checks": checks,
        "not_applicable": na,
        "notes": "Entry point ./check <Cnn> [--tier quick|thorough] [--replay FILE]; VERIF_SEED and VERIF_TIER are honoured. "
        "Exit 0 held / 1 VIOLATION / 2 harness error. KNOWN_FINDINGS.json lists known and fixed findings.",
    }
    with open(os.path.join(HERE, "MANIFEST.json"), "w") as f:
        json.dump(man, f, indent=1)
    print("claimed:", [c["property_id"] for c in checks])


if __name__ == "__main__":
    main()
